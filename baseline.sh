#!/bin/bash
# Runs the repository's pinned test suite with the verification guard OFF (no verif_hooks feature).
cd /repo || exit 2
export CARGO_NET_OFFLINE=true
if cargo nextest --version >/dev/null 2>&1; then
  cargo nextest run --workspace --no-fail-fast --offline --test-threads 8 "$@"
else
  cargo test --workspace --no-fail-fast --offline "$@"
fi
