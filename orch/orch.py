"""Orchestration of the logos runtime-monitoring checks (python3 stdlib only)."""
import fcntl
import hashlib
import json
import os
import shutil
import signal
import subprocess
import sys
import time
from concurrent.futures import ThreadPoolExecutor

# the framework root: /verif as registered; a snapshot (vp run) works from its own copy
VERIF = os.environ.get("VERIF_ROOT") or os.path.dirname(os.path.dirname(os.path.abspath(__file__)))
# the tree under test: /repo as registered; a snapshot run (vp run --with-repo) may point at its own copy
REPO = os.environ.get("VERIF_REPO") or "/repo"
WORK = os.path.join(VERIF, "work")
TARGET = os.path.join(VERIF, "target")
HARNESS = os.path.join(VERIF, "harness")
# campaign runs (seeded changes applied to the tree) write their evidence elsewhere: evidence/ only ever holds runs on the unchanged tree
EVIDENCE = os.environ.get("VERIF_EVIDENCE_DIR") or os.path.join(VERIF, "evidence")
KNOWN = os.path.join(VERIF, "KNOWN_FINDINGS.txt")
CONFIGS = {
    "tc": [],
    "sm": ["state_machine_codegen"],
    "tc_safe": ["forbid_unsafe"],
    "sm_safe": ["state_machine_codegen", "forbid_unsafe"],
}
NCPU = os.cpu_count() or 8


def env_base():
    e = dict(os.environ)
    e["CARGO_NET_OFFLINE"] = "true"
    e["RUST_BACKTRACE"] = "0"
    e["VERIF_ROOT"] = VERIF
    e["VERIF_REPO"] = REPO
    e.pop("RUSTFLAGS", None)
    e.pop("CARGO_TARGET_DIR", None)
    return e


class Inconclusive(Exception):
    pass


def log(msg):
    print(f"[check +{time.time() - T0:6.1f}s] {msg}", file=sys.stderr, flush=True)


T0 = time.time()


def sh(cmd, cwd=None, timeout=3600, env=None, check=False, quiet=True):
    """Run a command with a wall-clock watchdog; a fired watchdog is *inconclusive*."""
    try:
        p = subprocess.run(cmd, cwd=cwd, env=env or env_base(), timeout=timeout, stdout=subprocess.PIPE,
                           stderr=subprocess.STDOUT, text=True, errors="replace")
    except subprocess.TimeoutExpired:
        raise Inconclusive(f"watchdog ({timeout}s) fired for: {' '.join(cmd)[:200]}")
    if check and p.returncode != 0:
        raise Inconclusive(f"command failed rc={p.returncode}: {' '.join(cmd)[:200]}\n{p.stdout[-3000:]}")
    return p.returncode, p.stdout


# ----------------------------------------------------------------------------------------------
# builds

def build_harness(features_sm=False, release=False):
    """Build vmon/vrt/vtool from /verif/harness against /repo's working tree."""
    tdir = os.path.join(TARGET, "harness-sm" if features_sm else "harness")
    cmd = ["cargo", "build", "--offline", "-p", "vtool"] + (["--release"] if release else [])
    if features_sm:
        cmd += ["--features", "state_machine_codegen"]
    e = env_base()
    e["CARGO_TARGET_DIR"] = tdir
    rc, out = sh(cmd, cwd=HARNESS, timeout=1800, env=e)
    if rc != 0:
        # the harness links logos-codegen as a library: a tree that does not compile is inconclusive
        raise Inconclusive("harness build failed (does /repo compile?):\n" + out[-3000:])
    return os.path.join(tdir, "release" if release else "debug", "vtool")


def vtool(args, timeout=3600, sm=False, release=False, env_extra=None):
    exe = build_harness(sm, release)
    e = env_base()
    if env_extra:
        e.update(env_extra)
    rc, out = sh([exe] + args, cwd=VERIF, timeout=timeout, env=e)
    if rc != 0:
        raise Inconclusive(f"vtool {' '.join(args)[:120]} failed rc={rc}:\n{out[-2000:]}")
    return out


def lcheck(prop, seed, count):
    os.makedirs(WORK, exist_ok=True)
    outp = os.path.join(WORK, f"l_{prop}_{seed}.json")
    vtool(["lcheck", "--prop", prop, "--seed", str(seed), "--count", str(count), "--threads", str(NCPU), "--out", outp])
    with open(outp) as f:
        return json.load(f)


def gen_corpus(profile, seed, tier, count, max_states=250, shards=16):
    d = os.path.join(WORK, f"corpus-{profile}-{tier}")
    meta = vtool(["gen-corpus", "--profile", profile, "--seed", str(seed), "--count", str(count), "--shards", str(shards),
                  "--max-states", str(max_states), "--dir", d])
    return d, json.loads(meta)


def build_corpus(cdir, cfg, release=False, rustflags=None, tag=None, toolchain=None, target=None):
    """cargo build of the shard workspace in one feature configuration; binaries copied to bin/<tag>/."""
    tag = tag or (cfg + ("-release" if release else ""))
    profile_dir = "release" if release else "debug"
    tdir = os.path.join(TARGET, "corpus-" + os.path.basename(cdir) + ("-" + tag if rustflags else ""))
    cmd = ["cargo"] + (["+" + toolchain] if toolchain else []) + ["build", "--offline", "--workspace"]
    if release:
        cmd.append("--release")
    if CONFIGS[cfg]:
        cmd += ["--features", ",".join(CONFIGS[cfg])]
    if target:
        cmd += ["--target", target]
    e = env_base()
    e["CARGO_TARGET_DIR"] = tdir
    if rustflags:
        e["RUSTFLAGS"] = rustflags
    rc, out = sh(cmd, cwd=cdir, timeout=3600, env=e)
    if rc != 0:
        return None, out
    src = os.path.join(tdir, target, profile_dir) if target else os.path.join(tdir, profile_dir)
    dst = os.path.join(cdir, "bin", tag)
    os.makedirs(dst, exist_ok=True)
    n = 0
    while os.path.exists(os.path.join(src, f"shard{n}")):
        shutil.copy2(os.path.join(src, f"shard{n}"), os.path.join(dst, f"shard{n}"))
        n += 1
    return dst, out


def run_shards(cdir, tag, mode, seed, tier, nshards, extra=None, timeout=None, env_extra=None, cap=None):
    """Run all shard binaries of one configuration in parallel; returns list of result dicts."""
    # generous wall-clock watchdog (a quick shard normally needs about a second); its firing is inconclusive
    timeout = timeout or (600 if tier == "quick" else 6000)
    bdir = os.path.join(cdir, "bin", tag)
    rdir = os.path.join(cdir, "results", tag + "-" + mode)
    os.makedirs(rdir, exist_ok=True)
    e = env_base()
    if env_extra:
        e.update(env_extra)

    def one(i):
        outp = os.path.join(rdir, f"shard{i}.json")
        obsp = os.path.join(rdir, f"shard{i}.obs")
        for p in (outp, obsp):
            if os.path.exists(p):
                os.remove(p)
        cmd = [os.path.join(bdir, f"shard{i}"), "--corpus", os.path.join(cdir, "corpus.json"), "--mode", mode, "--seed", str(seed),
               "--tier", tier, "--out", outp, "--obslog", obsp] + (["--cap", str(cap)] if cap else []) + (extra or [])
        t = time.time()
        try:
            p = subprocess.run(cmd, cwd=cdir, env=e, timeout=timeout, stdout=subprocess.PIPE, stderr=subprocess.STDOUT, text=True, errors="replace")
        except subprocess.TimeoutExpired:
            return {"shard": i, "inconclusive": f"watchdog {timeout}s"}
        if p.returncode != 0 or not os.path.exists(outp):
            sig = -p.returncode if p.returncode < 0 else None
            return {"shard": i, "crashed": True, "rc": p.returncode, "signal": sig, "output": p.stdout[-4000:], "wall": time.time() - t}
        with open(outp) as f:
            r = json.load(f)
        r["shard"] = i
        r["obs_path"] = obsp
        r["wall"] = time.time() - t
        return r

    with ThreadPoolExecutor(max_workers=NCPU) as ex:
        return list(ex.map(one, range(nshards)))


# ----------------------------------------------------------------------------------------------
# verdict bookkeeping

class Ctx:
    def __init__(self, prop, tier, seed):
        self.prop, self.tier, self.seed = prop, tier, seed
        self.violations = []      # dicts
        self.inconclusive = []    # strings
        self.coverage = {"evaluations": 0, "distinct_nontrivial": 0, "samples": [], "stages": {}}
        self.assumptions = []
        self.rules = []

    def add_violation(self, v):
        self.violations.append(v)
        # campaign mode (orch/campaign.py): stop at the first violation that is not a listed known finding;
        # the evidence written then only covers the stages that ran
        if os.environ.get("VERIF_FAILFAST") == "1" and not any(k["property"] == self.prop and k["sig"] == signature(v) for k in load_known()):
            self.coverage["failfast"] = True
            rc = finish(self)
            sys.stdout.flush()
            os._exit(rc)

    def add_stage(self, name, info):
        self.coverage["stages"][name] = info


def load_known():
    known = []
    if os.path.exists(KNOWN):
        for line in open(KNOWN):
            line = line.strip()
            if line.startswith("known:"):
                parts = dict(p.split("=", 1) for p in line.split()[1:3] if "=" in p)
                known.append({"property": parts.get("property"), "sig": parts.get("sig"), "text": line})
    return known


def signature(v):
    d = v.get("definition", {}).get("source") if isinstance(v.get("definition"), dict) else v.get("def_source", "")
    key = "|".join([str(v.get("property")), str(v.get("rule")), str(d), str(v.get("input_hex", v.get("witness_hex", ""))), str(v.get("config", ""))])
    if v.get("input") and not d:
        # CLI findings (C16 / C17) carry the input file instead of a definition
        key += "|" + str(v["input"])
    return hashlib.sha1(key.encode()).hexdigest()[:12]


def finish(ctx):
    """Write evidence, print verdict lines, return exit code."""
    wall = time.time() - T0
    known = load_known()
    os.makedirs(EVIDENCE, exist_ok=True)
    rdir = os.path.join(WORK, "replay")
    os.makedirs(rdir, exist_ok=True)
    for f in os.listdir(rdir):
        if f.startswith(ctx.prop + "-"):
            os.remove(os.path.join(rdir, f))
    real = []
    known_hits = []
    for v in ctx.violations:
        sig = signature(v)
        v["signature"] = sig
        hit = [k for k in known if k["property"] == ctx.prop and k["sig"] == sig]
        if hit:
            known_hits.append((v, hit[0]))
        else:
            real.append(v)
    cov = ctx.coverage
    cov["rule"] = " ".join(ctx.rules)
    cov["violations_found"] = len(real)
    cov["known_findings"] = [k["text"] for _, k in known_hits]
    cov["inconclusive"] = ctx.inconclusive[:50]
    if not cov["samples"]:
        cov["samples"] = ["(no sample recorded)"]
    ev = {
        "property_id": ctx.prop, "tier": ctx.tier, "seed": ctx.seed, "level": "exploration",
        "coverage": cov, "assumptions": ctx.assumptions, "wall_s": round(wall, 2), "violations": len(real),
    }
    with open(os.path.join(EVIDENCE, ctx.prop + ".json"), "w") as f:
        json.dump(ev, f, indent=1, default=str)
    for v, k in known_hits[:20]:
        what = k["text"].split(" ", 3)[3] if k["text"].count(" ") >= 3 else k["text"]
        print(f"KNOWN-FINDING: property={ctx.prop} sig={k['sig']} {what}")
    shown = 0
    for i, v in enumerate(real):
        if shown >= 25:
            break
        path = os.path.join(rdir, f"{ctx.prop}-{i}.json")
        v["seed"], v["tier"] = ctx.seed, ctx.tier
        with open(path, "w") as f:
            json.dump(v, f, indent=1, default=str)
        print(f"VIOLATION property={ctx.prop} replay={path}")
        print(f"  rule={v.get('rule')} {str(v.get('detail'))[:300]}")
        shown += 1
    if real:
        print(f"{ctx.prop}: {len(real)} violation(s); evidence in {EVIDENCE}/{ctx.prop}.json")
        return 1
    if ctx.inconclusive and (cov["evaluations"] == 0 or cov["distinct_nontrivial"] < 2 or getattr(ctx, "fatal_inconclusive", False)):
        for r in ctx.inconclusive[:10]:
            print(f"INCONCLUSIVE property={ctx.prop} reason={r}")
        return 2
    for r in ctx.inconclusive[:10]:
        print(f"NOTE property={ctx.prop} partial-inconclusive: {r}")
    print(f"{ctx.prop}: held on everything explored ({cov['evaluations']} evaluations, {cov['distinct_nontrivial']} distinct non-trivial, {wall:.0f}s)")
    return 0


# ----------------------------------------------------------------------------------------------
# stages shared by several properties

def tier_params(tier):
    if tier == "thorough":
        return {"l_count": 300000, "mixed": 1200, "cb": 320, "twins": 240, "cap": 120000, "max_states": 400}
    return {"l_count": 6000, "mixed": 224, "cb": 150, "twins": 48, "cap": 30000, "max_states": 250}


def stage_l(ctx, prop=None, count=None):
    prop = prop or ctx.prop
    count = count or tier_params(ctx.tier)["l_count"]
    r = lcheck(prop, ctx.seed, count)
    for v in r["violations"]:
        if v["property"] == ctx.prop:
            ctx.add_violation(v)
    ctx.coverage["evaluations"] += r["definitions"]
    ctx.coverage["distinct_nontrivial"] += r["nontrivial"]
    ctx.coverage["states"] = ctx.coverage.get("states", 0) + r["product_tuples"]
    ctx.coverage["transitions"] = ctx.coverage.get("transitions", 0) + r["product_transitions"]
    ctx.coverage["samples"] += r["samples"][:4]
    if r["inconclusive_count"]:
        ctx.inconclusive.append(f"L-level: {r['inconclusive_count']} of {r['definitions']} definitions inconclusive, e.g. {r['inconclusive'][:2]}")
    ctx.add_stage("L:" + prop, {k: r[k] for k in ("definitions", "accepted", "rejected", "nontrivial", "product_tuples", "product_transitions",
                                                   "other_checks", "families", "shape_histogram", "inconclusive_count")})
    return r


def ensure_corpus(ctx, profile, cfgs, release=False):
    tp = tier_params(ctx.tier)
    count = {"mixed": tp["mixed"], "callbacks": tp["cb"], "twins": tp["twins"], "literals": tp["cb"] * 2}[profile]
    cdir, meta = gen_corpus(profile, ctx.seed, ctx.tier, count, tp["max_states"])
    log(f"corpus {profile}: {meta['definitions']} definitions ({meta['tried']} tried)")
    ctx.add_stage("corpus:" + profile, meta)
    tags = {}
    for cfg in cfgs:
        tag, out = build_corpus(cdir, cfg, release=release)
        if tag is None:
            # an accepted definition whose generated code does not compile is a C19 matter; for most properties: inconclusive.
            # The callbacks corpus is different: every callback in it is well typed for its variant (the corpus compiles on
            # the tree the framework was validated on), so a compile failure means the derive accepted a pattern with a
            # callback and emitted code in which that callback cannot run as documented - a C13 finding of its own.
            if ctx.prop == "C13" and profile == "callbacks":
                errs = [l for l in out.splitlines() if l.startswith("error") or l.strip().startswith("--> ")][:8]
                ctx.add_violation({"property": "C13", "level": "R", "rule": "callbacks-corpus-does-not-compile", "config": cfg,
                                   "detail": f"the derive accepted the definitions of the callbacks corpus but the generated code does not compile in config {cfg}: {errs}", "output_tail": out[-3000:]})
            raise Inconclusive(f"corpus build failed in config {cfg}:\n{out[-2500:]}")
        tags[cfg] = os.path.basename(tag)
        log(f"built corpus {profile} [{cfg}{' release' if release else ''}]")
    return cdir, meta, tags


def collect_r(ctx, results, props, stage_name, count_key="cases", nontrivial_key="distinct_cases", adopt=None):
    """Fold shard results into the context. Returns aggregate dict."""
    agg = {"cases": 0, "distinct_cases": 0, "items": 0, "error_items": 0, "runs_with_error": 0, "runs_with_skip": 0,
           "runs_with_multibyte": 0, "definitions": 0, "violation_count": 0, "traced_runs": 0, "read_events": 0, "attempts": 0,
           "restarts": 0, "max_reads_per_examined_byte": 0.0, "splits": 0, "stopped_mid_stream": 0, "chunk_schedules": 0,
           "determinedness_inconclusive": 0, "callback_prefix_checks": 0, "inputs": {}, "callback_invocations": 0, "runs_with_callbacks": 0, "callback_bumps": 0}
    for r in results:
        if r.get("inconclusive") and not isinstance(r.get("inconclusive"), list):
            ctx.inconclusive.append(f"{stage_name} shard {r['shard']}: {r['inconclusive']} (a lexer that does not terminate cannot be told from a slow machine: no verdict)")
            ctx.fatal_inconclusive = True
            continue
        if r.get("crashed") and r.get("signal") in (15, 9, 2, 1):
            # stopped from outside (operator, out-of-memory killer, another job's clean-up): no verdict
            ctx.inconclusive.append(f"{stage_name} shard {r['shard']}: ended by signal {r['signal']} from outside (no verdict)")
            ctx.fatal_inconclusive = True
            continue
        if r.get("crashed"):
            # a shard killed by a signal (stack overflow, abort) is a finding about the lexer, reported as such
            ctx.add_violation({"property": ctx.prop, "level": "R", "rule": "shard-crashed", "stage": stage_name,
                               "detail": f"shard {r['shard']} died rc={r['rc']} signal={r['signal']}: {r['output'][-600:]}"})
            continue
        for k in ("cases", "distinct_cases", "items", "error_items", "runs_with_error", "runs_with_skip", "runs_with_multibyte", "definitions", "traced_runs",
                  "callback_invocations", "runs_with_callbacks", "callback_bumps"):
            agg[k] += r.get(k, 0)
        rt = r.get("read_trace", {})
        agg["read_events"] += rt.get("read_events", 0)
        agg["attempts"] += rt.get("attempts", 0)
        agg["restarts"] += rt.get("restarts", 0)
        agg["max_reads_per_examined_byte"] = max(agg["max_reads_per_examined_byte"], rt.get("max_reads_per_examined_byte", 0.0))
        pt = r.get("partial", {})
        for k in ("splits", "stopped_mid_stream", "chunk_schedules", "determinedness_inconclusive", "callback_prefix_checks"):
            agg[k] += pt.get(k, 0)
        for k, v in r.get("inputs", {}).items():
            agg["inputs"][k] = agg["inputs"].get(k, 0) + v
        for v in r.get("violations", []):
            if v["property"] in props or (adopt and adopt(v)):
                v = dict(v)
                v["stage"] = stage_name
                v["property_original"] = v["property"]
                v["property"] = ctx.prop
                ctx.add_violation(v)
        for inc in r.get("inconclusive", []) if isinstance(r.get("inconclusive"), list) else []:
            ctx.inconclusive.append(f"{stage_name}: {inc}")
        if len(ctx.coverage["samples"]) < 8:
            ctx.coverage["samples"] += r.get("samples", [])[:1]
    ctx.add_stage(stage_name, agg)
    return agg


def obs_join(ctx, cdir, tag_a, tag_b, mode, nshards, what):
    """Offline join of two observation-hash logs (same cases, same order). Returns #cases compared."""
    total = 0
    for i in range(nshards):
        pa = os.path.join(cdir, "results", f"{tag_a}-{mode}", f"shard{i}.obs")
        pb = os.path.join(cdir, "results", f"{tag_b}-{mode}", f"shard{i}.obs")
        if not (os.path.exists(pa) and os.path.exists(pb)):
            ctx.inconclusive.append(f"{what}: observation log of shard {i} missing")
            continue
        a, b = open(pa, "rb").read(), open(pb, "rb").read()
        total += min(len(a), len(b)) // 8
        if a == b:
            continue
        if len(a) != len(b):
            ctx.add_violation({"property": ctx.prop, "level": "R", "rule": "cross-config-case-count", "detail": f"{what}: shard {i}: {len(a)//8} vs {len(b)//8} observations"})
            continue
        k = next(j for j in range(0, len(a), 8) if a[j:j + 8] != b[j:j + 8]) // 8
        ndiff = sum(1 for j in range(0, len(a), 8) if a[j:j + 8] != b[j:j + 8])
        # turn the mismatch into a self-contained witness: re-run exactly that case in both configurations
        witness = {}
        for tag in (tag_a, tag_b):
            cmd = [os.path.join(cdir, "bin", tag, f"shard{i}"), "--corpus", os.path.join(cdir, "corpus.json"), "--mode", "stream", "--seed", str(ctx.seed),
                   "--tier", ctx.tier, "--case-index", str(k)] + (["--cap", str(tier_params(ctx.tier)["cap"])] if True else [])
            try:
                rc, out = sh(cmd, cwd=cdir, timeout=900)
                line = next((l for l in out.splitlines() if l.startswith("CASE ")), None)
                if line:
                    witness[tag] = json.loads(line[5:])
            except Inconclusive:
                pass
        w0 = next(iter(witness.values()), {})
        ctx.add_violation({"property": ctx.prop, "level": "R", "rule": "cross-config-observation-differs", "shard": i, "case_index": k,
                           "configs": [tag_a, tag_b], "mode": mode, "def": w0.get("def"), "input_hex": w0.get("input_hex"), "config": tag_a.replace("-release", ""),
                           "def_source": w0.get("source"), "observed": {t: w.get("observed") for t, w in witness.items()},
                           "detail": f"{what}: {ndiff} case(s) of shard {i} observed differently; first: case #{k} definition {w0.get('def')} input {w0.get('input_text')!r}: "
                                     + " | ".join(f"{t}: {json.dumps(w.get('observed', {}).get('items'))}" for t, w in witness.items())})
    return total



# ----------------------------------------------------------------------------------------------
# apidrv (fixed definitions, public API models) and sanitizer builds

APIDRV = os.path.join(HARNESS, "apidrv")
ASAN_FLAGS = "-Zsanitizer=address -Cforce-frame-pointers=yes"
TRIPLE = "x86_64-unknown-linux-gnu"


def build_apidrv(cfg, release=False, asan=False):
    tag = cfg + ("-release" if release else "") + ("-asan" if asan else "")
    tdir = os.path.join(TARGET, "apidrv-asan" if asan else "apidrv")
    cmd = ["cargo"] + (["+nightly"] if asan else []) + ["build", "--offline"]
    if release:
        cmd.append("--release")
    if CONFIGS[cfg]:
        cmd += ["--features", ",".join(CONFIGS[cfg])]
    if asan:
        cmd += ["--target", TRIPLE]
    e = env_base()
    e["CARGO_TARGET_DIR"] = tdir
    if asan:
        e["RUSTFLAGS"] = ASAN_FLAGS
    rc, out = sh(cmd, cwd=APIDRV, timeout=1800, env=e)
    if rc != 0:
        raise Inconclusive(f"apidrv build failed [{tag}]:\n{out[-2500:]}")
    src = os.path.join(tdir, TRIPLE if asan else "", "release" if release else "debug", "apidrv")
    dst_dir = os.path.join(WORK, "apidrv", tag)
    os.makedirs(dst_dir, exist_ok=True)
    shutil.copy2(src, os.path.join(dst_dir, "apidrv"))
    return os.path.join(dst_dir, "apidrv")


def parse_apidrv(out):
    res = {"summaries": {}, "violations": [], "samples": {}, "done": False, "config": None}
    for line in out.splitlines():
        parts = line.split("|")
        if parts[0] == "V" and len(parts) >= 4:
            res["violations"].append({"property": parts[1], "rule": parts[2], "detail": "|".join(parts[3:])})
        elif parts[0] == "S" and len(parts) >= 3:
            kv = {}
            for tok in parts[2].split():
                if "=" in tok:
                    k, v = tok.split("=", 1)
                    kv[k] = int(v) if v.isdigit() else v
            if parts[1] == "done":
                res["done"] = True
            elif parts[1] == "config":
                res["config"] = kv
            else:
                res["summaries"][parts[1]] = kv
        elif parts[0] == "E" and len(parts) >= 3:
            res["samples"][parts[1]] = "|".join(parts[2:])
    return res


def run_apidrv(ctx, exe, subs, tag, small=False, count=2000, timeout=1800, env_extra=None, prefix_cmd=None, cwd=None, adopt=None):
    """Run apidrv natively (or via `cargo miri run` when prefix_cmd is given); fold results into ctx."""
    args = list(subs) + ["--seed", str(ctx.seed), "--count", str(count)] + (["--small"] if small else [])
    cmd = (prefix_cmd + ["--"] if prefix_cmd else [exe]) + args
    e = env_base()
    if env_extra:
        e.update(env_extra)
    rc, out = sh(cmd, cwd=cwd or VERIF, timeout=timeout, env=e)
    res = parse_apidrv(out)
    stage = f"apidrv:{tag}:{'+'.join(subs)}"
    sanitizer_report = ("ERROR: AddressSanitizer" in out) or ("Undefined Behavior" in out) or ("error: unsupported operation" in out and "miri" in tag)
    if sanitizer_report:
        blocks = out.count("ERROR: AddressSanitizer") + out.count("Undefined Behavior")
        ctx.add_violation({"property": ctx.prop, "level": "R", "rule": "sanitizer-report", "stage": stage, "config": tag,
                           "detail": f"{blocks} sanitizer report(s); first lines: " + "\n".join([l for l in out.splitlines() if "ERROR" in l or "Undefined Behavior" in l or "error:" in l][:6]), "output_tail": out[-3000:]})
    elif not res["done"]:
        # a process ended by SIGTERM / SIGKILL / SIGINT / SIGHUP was stopped from outside (operator, out-of-memory killer,
        # another job's clean-up): that says nothing about logos and is inconclusive; only faults raised by the program
        # itself (SIGSEGV, SIGBUS, SIGABRT, SIGILL, SIGFPE) are findings
        if rc in (-11, -7, -6, -4, -8, 134, 139):
            ctx.add_violation({"property": ctx.prop, "level": "R", "rule": "process-died", "stage": stage, "config": tag,
                               "detail": f"apidrv died rc={rc} (signal) while running {subs}", "output_tail": out[-2000:]})
        else:
            ctx.inconclusive.append(f"{stage}: did not finish (rc={rc}): {out[-400:]}")
            ctx.fatal_inconclusive = True
    for v in res["violations"]:
        if v["property"] == ctx.prop or (ctx.prop, v["property"]) in EXTRA_TAGS or (adopt and adopt(v)):
            v = dict(v)
            v.update({"level": "R", "stage": stage, "config": tag, "property_original": v["property"], "property": ctx.prop})
            ctx.add_violation(v)
    for sub, kv in res["summaries"].items():
        ctx.coverage["evaluations"] += kv.get("cases", 0)
    ctx.add_stage(stage, {"summaries": res["summaries"], "config": res["config"], "violations_all_properties": len(res["violations"])})
    for sub, text in res["samples"].items():
        if len(ctx.coverage["samples"]) < 10:
            ctx.coverage["samples"].append({"apidrv": sub, "config": tag, "what": text})
    return res


# violations that a property's check also adopts although the monitor tagged them with a sibling property
EXTRA_TAGS = {("C05", "C03"), ("C05", "C15"), ("C06", "C03"), ("C06", "C02")}


def miri_apidrv(ctx, subs, cfg="tc", release=False, count=20):
    cmd = ["cargo", "+nightly", "miri", "run", "--offline"] + (["--release"] if release else [])
    if CONFIGS[cfg]:
        cmd += ["--features", ",".join(CONFIGS[cfg])]
    tag = f"miri-{cfg}" + ("-release" if release else "")
    env_extra = {"MIRIFLAGS": "-Zmiri-disable-isolation", "CARGO_TARGET_DIR": os.path.join(TARGET, "apidrv-miri")}
    return run_apidrv(ctx, None, subs, tag, small=True, count=count, timeout=3000, env_extra=env_extra, prefix_cmd=cmd, cwd=APIDRV)


def miri_corpus(ctx, cdir, tags, meta, cfg, shards, limit, release=False):
    """Oracle-free run of corpus shards under Miri on inputs dumped by the native driver."""
    native = tags[cfg]
    ok_cases = 0
    def one(i):
        inp = os.path.join(cdir, "results", f"miri-inputs-{i}.txt")
        os.makedirs(os.path.dirname(inp), exist_ok=True)
        rc, out = sh([os.path.join(cdir, "bin", native, f"shard{i}"), "--corpus", os.path.join(cdir, "corpus.json"), "--mode", "dump", "--limit", str(limit),
                      "--inputs", inp, "--seed", str(ctx.seed), "--out", os.path.join(cdir, "results", f"dump{i}.json")], cwd=cdir, timeout=600)
        if rc != 0:
            return i, None, "dump failed: " + out[-300:]
        cmd = ["cargo", "+nightly", "miri", "run", "--offline", "-p", f"shard{i}"] + (["--release"] if release else [])
        if CONFIGS[cfg]:
            cmd += ["--features", ",".join(CONFIGS[cfg])]
        cmd += ["--", "--mode", "bare", "--inputs", inp, "--corpus", "unused"]
        e = env_base()
        e["MIRIFLAGS"] = "-Zmiri-disable-isolation"
        e["CARGO_TARGET_DIR"] = os.path.join(TARGET, "corpus-miri-" + os.path.basename(cdir))
        try:
            rc, out = sh(cmd, cwd=cdir, timeout=3000, env=e)
        except Inconclusive as ex:
            return i, None, str(ex)
        return i, out, None
    # the first shard builds the shared dependencies alone, the rest run in parallel
    results = [one(shards[0])]
    with ThreadPoolExecutor(max_workers=NCPU) as ex:
        results += list(ex.map(one, shards[1:]))
    total = {"cases": 0, "items": 0, "shards": 0}
    for i, out, err in results:
        if err:
            ctx.inconclusive.append(f"miri corpus shard {i}: {err}")
            continue
        if "Undefined Behavior" in out or "BARE-VIOLATION" in out:
            lines = [l for l in out.splitlines() if "Undefined Behavior" in l or "BARE-VIOLATION" in l or l.strip().startswith("-->")][:8]
            ctx.add_violation({"property": ctx.prop, "level": "R", "rule": "miri-report", "stage": f"miri-corpus:{cfg}", "config": cfg,
                               "detail": f"shard {i} under Miri: " + " / ".join(lines), "output_tail": out[-3000:]})
        summ = [l for l in out.splitlines() if l.startswith("BARE-SUMMARY")]
        if summ:
            kv = dict(t.split("=") for t in summ[0].split()[1:])
            total["cases"] += int(kv["cases"])
            total["items"] += int(kv["items"])
            total["shards"] += 1
        elif "Undefined Behavior" not in out:
            ctx.inconclusive.append(f"miri corpus shard {i}: no summary: {out[-300:]}")
    ctx.coverage["evaluations"] += total["cases"]
    ctx.add_stage(f"miri-corpus:{cfg}{'-release' if release else ''}", total)
    return total


def memcheck_corpus(ctx, cdir, tag, meta, limit):
    """Oracle-free run of the corpus shards (binaries of configuration `tag`) under valgrind memcheck: the real compiled
    code - optimised in the release tags - on inputs dumped by the native driver, every source in its own exactly sized block."""
    def one(i):
        inp = os.path.join(cdir, "results", f"memcheck-inputs-{tag}-{i}.txt")
        os.makedirs(os.path.dirname(inp), exist_ok=True)
        rc, out = sh([os.path.join(cdir, "bin", tag, f"shard{i}"), "--corpus", os.path.join(cdir, "corpus.json"), "--mode", "dump", "--limit", str(limit),
                      "--inputs", inp, "--seed", str(ctx.seed), "--out", os.path.join(cdir, "results", f"mdump{i}.json")], cwd=cdir, timeout=600)
        if rc != 0:
            return i, None, "dump failed: " + out[-300:]
        try:
            rc, out = sh(["valgrind", "--quiet", "--error-exitcode=99", "--errors-for-leak-kinds=definite", "--leak-check=full",
                          os.path.join(cdir, "bin", tag, f"shard{i}"), "--mode", "bare", "--inputs", inp, "--corpus", "unused"], cwd=cdir, timeout=3000)
        except Inconclusive as ex:
            return i, None, str(ex)
        return i, (rc, out), None
    total = {"cases": 0, "items": 0, "shards": 0, "reports": 0}
    with ThreadPoolExecutor(max_workers=NCPU) as ex:
        results = list(ex.map(one, range(meta["shards"])))
    for i, res, err in results:
        if err:
            ctx.inconclusive.append(f"memcheck corpus shard {i}: {err}")
            continue
        rc, out = res
        if rc == 99 or "Invalid read" in out or "Invalid write" in out or "uninitialised" in out or "BARE-VIOLATION" in out:
            total["reports"] += 1
            lines = [l for l in out.splitlines() if l.startswith("==") or "BARE-VIOLATION" in l][:10]
            ctx.add_violation({"property": ctx.prop, "level": "R", "rule": "memcheck-report", "stage": f"memcheck:{tag}", "config": tag,
                               "detail": f"shard {i} under valgrind memcheck: " + " / ".join(lines)[:900], "output_tail": out[-3000:]})
        summ = [l for l in out.splitlines() if l.startswith("BARE-SUMMARY")]
        if summ:
            kv = dict(t.split("=") for t in summ[0].split()[1:])
            total["cases"] += int(kv["cases"])
            total["items"] += int(kv["items"])
            total["shards"] += 1
        elif rc != 99:
            ctx.inconclusive.append(f"memcheck corpus shard {i}: no summary (rc={rc}): {out[-300:]}")
    ctx.coverage["evaluations"] += total["cases"]
    ctx.add_stage(f"memcheck-corpus:{tag}", total)
    return total


def asan_corpus(ctx, profile, cfg, cap):
    """Whole stream workload of a corpus in an AddressSanitizer build (nightly)."""
    cdir, meta, _ = ensure_corpus(ctx, profile, [])
    tag, out = build_corpus(cdir, cfg, rustflags=ASAN_FLAGS, tag=cfg + "-asan", toolchain="nightly", target=TRIPLE)
    if tag is None:
        ctx.inconclusive.append("ASan build of the corpus failed (nightly -Zsanitizer=address): " + out[-600:])
        return None
    res = run_shards(cdir, cfg + "-asan", "stream", ctx.seed, ctx.tier, meta["shards"], cap=cap,
                     env_extra={"ASAN_OPTIONS": "halt_on_error=1:detect_leaks=1:abort_on_error=0"})
    reports = 0
    for r in res:
        if r.get("crashed") and "AddressSanitizer" in r.get("output", ""):
            reports += 1
            first = [l for l in r["output"].splitlines() if "ERROR: AddressSanitizer" in l or l.strip().startswith("#0") or l.strip().startswith("#1")][:4]
            ctx.add_violation({"property": ctx.prop, "level": "R", "rule": "asan-report", "stage": f"asan:{profile}:{cfg}", "config": cfg + "-asan",
                               "detail": f"shard {r['shard']}: " + " / ".join(first), "output_tail": r["output"][-3000:]})
            r["crashed"] = False
            r["inconclusive"] = None
            r["violations"] = []
    a = collect_r(ctx, [r for r in res if not ("output" in r and "AddressSanitizer" in r.get("output", ""))], {ctx.prop}, f"R:stream-asan:{profile}:{cfg}")
    a["asan_report_blocks"] = reports
    ctx.coverage["evaluations"] += a["cases"]
    return a


STREAM_RULE = ("R-level: every corpus definition is compiled by rustc in the listed feature configurations and run on inputs derived from its own "
               "captured graph (every state x boundary/all bytes x tails, end of input in every state), reference-language members and their mutations, "
               "alphabet-random strings and loop-length sweeps 0..40; each item is compared online with the reference lexing and the graph interpreter. "
               "A case is distinct by (definition, input, observation hash).")
L_RULE = ("L-level: generated definitions go through the real generate(); for every accepted one the captured graph is explored in product with "
          "independent per-pattern reference automata over all inputs (rules of DESIGN 3.3); non-trivial = accepted with more than one product tuple.")


def stage_stream(ctx, profile, cfgs, props, release=False, name=None, adopt=None):
    cdir, meta, tags = ensure_corpus(ctx, profile, cfgs, release=release)
    cap = tier_params(ctx.tier)["cap"]
    aggs = {}
    for cfg in cfgs:
        res = run_shards(cdir, tags[cfg], "stream", ctx.seed, ctx.tier, meta["shards"], cap=cap)
        aggs[cfg] = collect_r(ctx, res, props, f"{name or 'R:stream'}:{profile}:{tags[cfg]}", adopt=adopt)
        log(f"ran {profile} stream [{tags[cfg]}]: {aggs[cfg]['cases']} cases")
    return cdir, meta, tags, aggs


def fold_stream_cov(ctx, aggs, nontrivial_key):
    for cfg, a in aggs.items():
        ctx.coverage["evaluations"] += a["cases"]
    # distinct non-trivial cases: count once (first config), by the property's own rule
    first = next(iter(aggs.values()))
    ctx.coverage["distinct_nontrivial"] += first[nontrivial_key]


# ----------------------------------------------------------------------------------------------
# properties

def check_C01(ctx):
    ctx.rules += [L_RULE, STREAM_RULE, "Non-trivial R case: distinct (definition, input, observation)."]
    stage_l(ctx)
    _, _, _, aggs = stage_stream(ctx, "mixed", list(CONFIGS), {"C01"})
    fold_stream_cov(ctx, aggs, "distinct_cases")
    if ctx.tier == "thorough":
        _, _, _, aggs2 = stage_stream(ctx, "mixed", ["tc", "sm_safe"], {"C01"}, release=True, name="R:stream-release")
        fold_stream_cov(ctx, aggs2, "distinct_cases")
    ctx.assumptions += ["regex-syntax 0.8 / regex-automata 0.4 single-pattern automata are the specification of a pattern's language",
                        "priorities used for winner selection are the captured ones (the default-priority rule is C09's)"]


def check_C02(ctx):
    ctx.rules += [L_RULE, STREAM_RULE, "Non-trivial R case: a run that produced at least one Err item."]
    stage_l(ctx)
    _, _, _, aggs = stage_stream(ctx, "mixed", list(CONFIGS), {"C02"})
    fold_stream_cov(ctx, aggs, "runs_with_error")
    # error values: callbacks corpus carries custom error types / error callbacks / pattern callbacks returning Err
    _, _, _, aggs2 = stage_stream(ctx, "callbacks", ["tc", "sm"], {"C02"}, name="R:stream-errors")
    fold_stream_cov(ctx, aggs2, "runs_with_error")
    ctx.assumptions += ["error end = first unit after which no reference component can still report, at least one byte, rounded up to a char boundary"]


def panic_rule(v):
    return v.get("rule") in ("panic-while-lexing", "shard-crashed")


def check_C03(ctx):
    ctx.rules += [L_RULE, "C03 L-level additionally demands that no accepted pattern matches the empty string (reference start state and regex meta engine).",
                  STREAM_RULE, "Structural monitor per run: non-empty strictly increasing spans, gaps tiled by skip matches, None forever after None, final span len..len, read budget 4*(len+2)+16 per attempt. Non-trivial R case: distinct (definition, input, observation)."]
    stage_l(ctx)
    # a panic inside next() means the remaining items are never yielded and None never arrives
    _, _, _, aggs = stage_stream(ctx, "mixed", list(CONFIGS), {"C03"}, adopt=panic_rule)
    fold_stream_cov(ctx, aggs, "distinct_cases")
    ctx.assumptions += ["non-termination is decided by the read budget of the read-trace hook, never by wall-clock time"]


def check_C04(ctx):
    ctx.rules += ["L-level: str-mode candidates (byte-ish patterns, non-UTF-8 subpatterns used and unused) through generate(); for every accepted one each pattern's and subpattern's reference automaton is searched (product with a UTF-8 automaton) for a match along an ill-formed byte path.",
                  STREAM_RULE, "Span boundaries are checked before slice()/remainder() are called, then the slices are validated. Non-trivial R case: str-mode run whose input contains multi-byte characters."]
    stage_l(ctx)
    _, _, _, aggs = stage_stream(ctx, "mixed", list(CONFIGS), {"C04"})
    fold_stream_cov(ctx, aggs, "runs_with_multibyte")
    # bump is the other way a span end is set: on str sources an end inside a code point must never be stored
    # (the bump matrix checks the span invariant before slicing); C04 adopts those findings for str sources
    ctx.rules += ["apidrv bump (str sources): after every bump - returned or caught - the span lies on char boundaries; checked before slice()/remainder() are called."]
    str_span = lambda v: v.get("property") == "C15" and v.get("rule", "").startswith("span-invariant-broken") and v.get("detail", "").startswith('"')
    for cfg in (["tc", "tc_safe"] if ctx.tier == "quick" else list(CONFIGS)):
        run_apidrv(ctx, build_apidrv(cfg), ["bump"], cfg, adopt=str_span)
    run_apidrv(ctx, build_apidrv("tc", release=True), ["bump"], "tc-release", adopt=str_span)


def check_C07(ctx):
    ctx.rules += ["R-level: for sampled inputs S (<= 48 bytes) of every corpus definition and every split point k (char boundaries in str mode) the real partial lexer over S[..k] "
                  "is compared with the real one-shot lexing of S (leading run, empty span at None, resume position) and with the number of items the reference calls determined by the prefix "
                  "(n_p == n_det; with look-around n_det(k-1) <= n_p <= n_det(k)); plus random chunk schedules following the book's protocol. "
                  "Non-trivial: (input, split) pairs where the partial lexer stopped before the end of the one-shot stream."]
    ctx.rules += ["L-level: for every accepted generated definition the product exploration (all inputs) evaluates, at every reachable tuple at which a partial lexer's buffer could end, the commit condition of the "
                  "generated code (graph state without any byte or end-of-input transition) against reference determinedness: a commit of an undetermined item, or a determined item (not a skip) that is still "
                  "withheld (with look-around: still withheld one byte later) is a violation."]
    stage_l(ctx)
    cfgs = ["tc", "sm"] if ctx.tier == "quick" else list(CONFIGS)
    cdir, meta, tags = ensure_corpus(ctx, "mixed", cfgs)
    for cfg in cfgs:
        res = run_shards(cdir, tags[cfg], "partial", ctx.seed, ctx.tier, meta["shards"], cap=tier_params(ctx.tier)["cap"])
        a = collect_r(ctx, res, {"C07"}, f"R:partial:{tags[cfg]}")
        ctx.coverage["evaluations"] += a["splits"]
        if cfg == cfgs[0]:
            ctx.coverage["distinct_nontrivial"] += a["stopped_mid_stream"]
        log(f"ran partial [{cfg}]: {a['splits']} splits, {a['stopped_mid_stream']} stopped mid-stream, {a['chunk_schedules']} chunk schedules")
    # definitions with callbacks in partial mode: committed items are a leading run of the one-shot items and the callback
    # invocations a leading run of the one-shot invocations (no callback runs for a match that is still pending)
    ctx.rules += ["Callbacks corpus in partial mode (definitions whose callbacks do not bump): leading-run rule for the items and for the callback invocation log."]
    cdir2, meta2, tags2 = ensure_corpus(ctx, "callbacks", cfgs[:2])
    for cfg in cfgs[:2]:
        res = run_shards(cdir2, tags2[cfg], "partial", ctx.seed, ctx.tier, meta2["shards"], cap=tier_params(ctx.tier)["cap"])
        a = collect_r(ctx, res, {"C07"}, f"R:partial-callbacks:{tags2[cfg]}")
        ctx.coverage["evaluations"] += a["splits"]
        ctx.coverage["partial_callback_prefix_checks"] = ctx.coverage.get("partial_callback_prefix_checks", 0) + a.get("callback_prefix_checks", 0)
    # partial lexers that went through clone / morph / bump are still partial lexers: API histories with partial = true
    for cfg in cfgs:
        run_apidrv(ctx, build_apidrv(cfg), ["hist"], cfg, count=3000 if ctx.tier == "quick" else 100000,
                   adopt=lambda v: v["property"] == "C14" and "partial=true" in v["detail"])
    ctx.assumptions += ["determinedness of an item is computed on the reference automata over all feasible continuations, not by sampling tails"]


def check_L_only(ctx, extra_rule):
    ctx.rules += [extra_rule]
    stage_l(ctx)


def check_C08(ctx):
    check_L_only(ctx, "L-level: ambiguity-shaped and mixed definitions through generate(); the reference product (independent per-pattern automata) is explored exhaustively for tuples in which two or more top-priority components report simultaneously; compared both ways with the derive's verdict and with the captured conflict groups. Non-trivial: definitions where either side found a conflict.")


def check_C09(ctx):
    check_L_only(ctx, "L-level: captured leaf priorities versus (a) structural recursion over the regex AST, (b) shortest match in characters of the reference automaton, token = 2 x bytes, explicit priority kept; plus the literal-vs-regex consequence on the literal's own text. Non-trivial: definitions with at least one default-priority regex checked.")


def check_C10(ctx):
    check_L_only(ctx, "L-level: literals over a hostile alphabet (all regex metacharacters, NUL, newline, cased non-ASCII, arbitrary bytes) as token / token+ignore(case) / regex+ignore(case) / skip+ignore(case); captured graph versus hand-built literal automaton or per-character simple-case-fold automaton (product check, all inputs); leaves compared with the flag removed.")
    _, _, _, aggs = stage_stream(ctx, "literals", ["tc", "sm_safe"], {"C01", "C02", "C03"}, name="R:stream")
    fold_stream_cov(ctx, aggs, "distinct_cases")


def check_C11(ctx):
    check_L_only(ctx, "L-level: definitions with subpatterns (nested references, alternations, inline flags, byte-string subpatterns, references at start/middle/end, quantified, inside skips); captured graph versus reference built with my own inliner (product check, all inputs); undefined and forward references must be rejected.")


def check_C12(ctx):
    ctx.rules += ["L-level: every definition is generated twice (utf8 on/off); both graphs pass the product check against the same reference; leaves equal.",
                  "R-level: twin enums compiled and run on the same valid UTF-8 inputs: Ok items equal, error-covered byte sets equal; byte-mode twin additionally on ill-formed input against the reference. Non-trivial: distinct (definition, input, observation)."]
    stage_l(ctx)
    cfgs = ["tc", "tc_safe"] if ctx.tier == "quick" else list(CONFIGS)
    cdir, meta, tags = ensure_corpus(ctx, "twins", cfgs)
    for cfg in cfgs:
        res = run_shards(cdir, tags[cfg], "twins", ctx.seed, ctx.tier, meta["shards"], cap=tier_params(ctx.tier)["cap"])
        a = collect_r(ctx, res, {"C12"}, f"R:twins:{cfg}")
        ctx.coverage["evaluations"] += a["cases"]
        if cfg == cfgs[0]:
            ctx.coverage["distinct_nontrivial"] += a["distinct_cases"]
    # the corpus twins carry no callbacks; a fixed twin pair whose callbacks bump (to a found terminator, to the end of the
    # source, over one character) closes that gap: same items and spans on the same valid UTF-8 text, no panic in either
    ctx.rules += ["apidrv twin: a fixed definition over str and its utf8 = false twin, with bumping callbacks, on generated valid UTF-8 texts in exactly sized blocks: identical item streams and spans (a panic is a difference)."]
    for cfg in cfgs:
        run_apidrv(ctx, build_apidrv(cfg), ["twin"], cfg, count=4000 if ctx.tier == "quick" else 20000)
    run_apidrv(ctx, build_apidrv("tc", release=True), ["twin"], "tc-release", count=4000 if ctx.tier == "quick" else 20000)
    if ctx.tier == "thorough":
        # the bumping twins under Miri (unchecked slicing after bumps to the very end of exactly sized blocks)
        miri_apidrv(ctx, ["twin"], "tc", release=True)



def check_C05(ctx):
    ctx.rules += [STREAM_RULE,
                  "C05: (i) offline join of per-case observation hashes default vs forbid_unsafe build; any panic while lexing is a violation; (ii) Source::read model in apidrv "
                  "(u8, &[u8;1..=16], &[u8;32]; str/[u8]/String/Vec/&str/Box<str>; lengths 0..=40; offsets 0..=len+9 and around usize::MAX) in debug and release, default and forbid_unsafe; "
                  "(iii) the same workloads in an AddressSanitizer build with every source in an exactly sized heap block (front/back aligned); (iv) corpus shards and apidrv under Miri; "
                  "(v) corpus shards under valgrind memcheck (uninstrumented binaries, in thorough the optimised release ones). "
                  "Non-trivial: distinct (definition, input, observation) cases; in-range reads compared byte for byte."]
    # a span outside the source or inside a code point is what lets safe code form an out-of-range slice:
    # the runner reports such spans instead of slicing, C05 adopts those reports
    span_rule = lambda v: v.get("rule") == "accessor-or-span" and v.get("property") in ("C03", "C04")
    cdir, meta, tags, aggs = stage_stream(ctx, "mixed", list(CONFIGS), {"C05"}, adopt=span_rule)
    fold_stream_cov(ctx, aggs, "distinct_cases")
    n = obs_join(ctx, cdir, tags["tc"], tags["tc_safe"], "stream", meta["shards"], "default vs forbid_unsafe (tail-call)")
    n += obs_join(ctx, cdir, tags["sm"], tags["sm_safe"], "stream", meta["shards"], "default vs forbid_unsafe (state machine)")
    ctx.add_stage("join:unsafe-vs-safe", {"cases_compared": n})
    rel_cfgs = ["tc", "tc_safe"] if ctx.tier == "quick" else list(CONFIGS)
    # `bump` is included: a lexer whose span left the source lets safe code form an out-of-range slice
    for cfg in CONFIGS:
        r = run_apidrv(ctx, build_apidrv(cfg), ["read", "long", "bump"], cfg)
        ctx.coverage["distinct_nontrivial"] += r["summaries"].get("read", {}).get("returned_some", 0) if cfg == "tc" else 0
    for cfg in rel_cfgs:
        run_apidrv(ctx, build_apidrv(cfg, release=True), ["read", "long", "bump"], cfg + "-release")
    if ctx.tier == "thorough":
        cdir2, meta2, tags2, aggs2 = stage_stream(ctx, "mixed", ["tc", "tc_safe"], {"C05"}, release=True, name="R:stream-release")
        obs_join(ctx, cdir2, tags2["tc"], tags2["tc_safe"], "stream", meta2["shards"], "release: default vs forbid_unsafe")
    # sanitizers
    run_apidrv(ctx, build_apidrv("tc", asan=True), ["read", "bump", "hist", "long"], "tc-asan", small=False, count=300, env_extra={"ASAN_OPTIONS": "halt_on_error=1:detect_leaks=1"})
    a = asan_corpus(ctx, "mixed", "tc", cap=tier_params(ctx.tier)["cap"] // (2 if ctx.tier == "quick" else 1))
    if ctx.tier == "thorough":
        asan_corpus(ctx, "mixed", "sm", cap=tier_params(ctx.tier)["cap"])
    # valgrind memcheck: the same binaries as above (no instrumentation at compile time), in thorough also the optimised ones
    memcheck_corpus(ctx, cdir, tags["tc"], meta, limit=300 if ctx.tier == "quick" else 1500)
    if ctx.tier == "thorough":
        memcheck_corpus(ctx, cdir2, tags2["tc"], meta2, limit=1500)
        memcheck_corpus(ctx, cdir, tags["sm"], meta, limit=1500)
    miri_apidrv(ctx, ["read"], "tc", release=False)
    shards = [0, 1, 2, 3] if ctx.tier == "quick" else list(range(meta["shards"]))
    miri_corpus(ctx, cdir, tags, meta, "tc", shards, limit=10 if ctx.tier == "quick" else 40)
    if ctx.tier == "thorough":
        miri_apidrv(ctx, ["read"], "tc", release=True)
        miri_corpus(ctx, cdir, tags, meta, "sm", shards, limit=25)
        miri_corpus(ctx, cdir, tags, meta, "tc", shards, limit=25, release=True)
    ctx.assumptions += ["AddressSanitizer only sees accesses that land in a red zone (adjacent overflows); Miri interprets far fewer runs; neither is a proof of memory safety",
                        "the observation hash covers results, spans, callback log, accessor problems and panics"]


def check_C06(ctx):
    ctx.rules += [STREAM_RULE,
                  "C06: offline join of per-case observation hashes (results, spans, callback invocation log) tail-call vs state-machine build, default and forbid_unsafe, on the mixed and the callbacks corpus; "
                  "stack probe: callbacks record the address of a local at the 1st, 1000th and 10^6th consecutive skip and for tokens of 10 and 4*10^6 bytes through a two-state loop on a 256 KiB thread, "
                  "the spread must be 0; long inputs (2 MiB) with closed-form expectations. Non-trivial: distinct (definition, input, observation) cases."]
    total = 0
    for profile in ("mixed", "callbacks"):
        cdir, meta, tags, aggs = stage_stream(ctx, profile, list(CONFIGS), {"C06"})
        fold_stream_cov(ctx, aggs, "distinct_cases")
        total += obs_join(ctx, cdir, tags["tc"], tags["sm"], "stream", meta["shards"], f"{profile}: tail-call vs state machine")
        total += obs_join(ctx, cdir, tags["tc_safe"], tags["sm_safe"], "stream", meta["shards"], f"{profile}: tail-call vs state machine (forbid_unsafe)")
    ctx.add_stage("join:tc-vs-sm", {"cases_compared": total})
    small = False
    for cfg in ("sm", "sm_safe"):
        run_apidrv(ctx, build_apidrv(cfg), ["stack", "long"], cfg, small=small)
    run_apidrv(ctx, build_apidrv("sm", release=True), ["stack", "long"], "sm-release", small=small)
    if ctx.tier == "thorough":
        run_apidrv(ctx, build_apidrv("sm_safe", release=True), ["stack", "long"], "sm_safe-release")
        cdir2, meta2, tags2, aggs2 = stage_stream(ctx, "mixed", ["tc", "sm"], {"C06"}, release=True, name="R:stream-release")
        obs_join(ctx, cdir2, tags2["tc"], tags2["sm"], "stream", meta2["shards"], "release: tail-call vs state machine")
    ctx.assumptions += ["the tail-call lexer is documented to use stack proportional to consecutive skips; no stack claim is checked for it"]


def check_C13(ctx):
    ctx.rules += ["R-level: definitions whose patterns carry recording callbacks generated as source text (every supported return type, labelled and inline, positional and named, with and without "
                  "custom error type / error callback, optional bump) are compiled in 4 configurations; decisions are pure functions of the matched text; every invocation is logged in Extras; "
                  "the checker replays the reference segmentation through the documented table and demands equality of the item stream and of the invocation log (exactly once, in order, span and slice). "
                  "Non-trivial: runs in which at least one callback was invoked."]
    cfgs = list(CONFIGS)
    cdir, meta, tags, aggs = stage_stream(ctx, "callbacks", cfgs, {"C13"})
    for cfg, a in aggs.items():
        ctx.coverage["evaluations"] += a["cases"]
    first = next(iter(aggs.values()))
    ctx.coverage["distinct_nontrivial"] += first["runs_with_callbacks"]
    ctx.coverage["callback_invocations_observed"] = first["callback_invocations"]
    ctx.coverage["callback_bumps_observed"] = first["callback_bumps"]
    # the same definitions as partial lexers: no callback may run for a match that is still pending at the end of the buffer
    for cfg in (["tc", "sm"] if ctx.tier == "quick" else cfgs):
        res = run_shards(cdir, tags[cfg], "partial", ctx.seed, ctx.tier, meta["shards"], cap=tier_params(ctx.tier)["cap"])
        a = collect_r(ctx, res, {"C13"}, f"R:partial-callbacks:{tags[cfg]}")
        ctx.coverage["evaluations"] += a["splits"]
        ctx.coverage["partial_callback_prefix_checks"] = ctx.coverage.get("partial_callback_prefix_checks", 0) + a.get("callback_prefix_checks", 0)
    corpus = json.load(open(os.path.join(cdir, "corpus.json")))
    kinds = {}
    for d in corpus["defs"]:
        for p in d["def"]["pats"]:
            if p.get("cb"):
                kinds[p["cb"]["ret"]] = kinds.get(p["cb"]["ret"], 0) + 1
    ctx.coverage["callback_return_types_in_corpus"] = kinds
    missing = [k for k in ("Unit", "Bool", "Val", "OptVal", "ResVal", "SkipAlways", "ResSkip", "FilterVal", "FilterResVal", "FilterUnit", "Tok", "ResTok", "FilterTok", "FilterResTok",
                           "SkUnit", "SkSkip", "SkResUnit", "SkResSkip") if k not in kinds]
    if missing:
        ctx.inconclusive.append(f"callback return types absent from this corpus: {missing}")


def check_C14(ctx):
    ctx.rules += ["apidrv hist: random histories (5..40 steps) over {next, in-range bump, clone + advance the clone then the original, store/drop clones with heap-owning extras, morph A<->B, spanned vs manual, extras mutation}, "
                  "str and byte sources, ordinary and partial lexers; a model (start, end, partial, extras) predicts every accessor after every step and next() is predicted by a fresh lexer over source[end..]; "
                  "4 feature configs, debug and release, plus Miri and ASan. The corpus stream run also checks slice()/remainder()/spanned() on every item. Non-trivial: histories executed."]
    count = 3000 if ctx.tier == "quick" else 200000
    for cfg in CONFIGS:
        r = run_apidrv(ctx, build_apidrv(cfg), ["hist"], cfg, count=count)
        if cfg == "tc":
            ctx.coverage["distinct_nontrivial"] += r["summaries"].get("hist", {}).get("cases", 0)
    run_apidrv(ctx, build_apidrv("tc", release=True), ["hist"], "tc-release", count=count)
    run_apidrv(ctx, build_apidrv("sm_safe", release=True), ["hist"], "sm_safe-release", count=count)
    run_apidrv(ctx, build_apidrv("tc", asan=True), ["hist"], "tc-asan", count=count // 4, env_extra={"ASAN_OPTIONS": "halt_on_error=1:detect_leaks=1"})
    miri_apidrv(ctx, ["hist"], "tc", count=40 if ctx.tier == "quick" else 400)
    _, _, _, aggs = stage_stream(ctx, "mixed", ["tc", "sm_safe"], {"C14"})
    for cfg, a in aggs.items():
        ctx.coverage["evaluations"] += a["cases"]


def check_C15(ctx):
    ctx.rules += ["apidrv bump: sources of 0..24 bytes with 1-4 byte characters (str) and the same as bytes; every lexer position reachable by next(); n in 0..=len+2 and around usize::MAX, usize::MAX/2, usize::MAX-end, usize::MAX-len; "
                  "outcome (return / panic) versus model; the span invariant (start <= end <= len, char boundaries) is checked BEFORE slice()/remainder() are called, also after a caught panic and after further next() calls; "
                  "debug and release x default and forbid_unsafe; the same under Miri (debug and --release) and ASan. Non-trivial: every (source, position, n) case (both successful and panicking bumps occur)."]
    for cfg in CONFIGS:
        r = run_apidrv(ctx, build_apidrv(cfg), ["bump"], cfg)
        if cfg == "tc":
            ctx.coverage["distinct_nontrivial"] += r["summaries"].get("bump", {}).get("cases", 0)
        run_apidrv(ctx, build_apidrv(cfg, release=True), ["bump"], cfg + "-release")
    run_apidrv(ctx, build_apidrv("tc", asan=True), ["bump"], "tc-asan", env_extra={"ASAN_OPTIONS": "halt_on_error=1:detect_leaks=1"})
    miri_apidrv(ctx, ["bump"], "tc", release=True)
    if ctx.tier == "thorough":
        miri_apidrv(ctx, ["bump"], "tc", release=False)
        miri_apidrv(ctx, ["bump"], "sm_safe", release=True)


def check_C20(ctx):
    ctx.rules += ["Read-trace hook armed in the tail-call and state-machine drivers: per match attempt (Next/Restart to the next) read offsets never decrease, the first read is at the end of the item just produced, "
                  "reads <= 4*(examined+2)+16; whole corpus workload (every 4th run traced, budget armed on all) plus adversarial repetition patterns ((a|aa)+b, (a*)*b, (a|b)*abb, (x+x+)+y, greedy dot, nested counted) "
                  "on near-miss inputs up to 2^16+7 bytes. Non-trivial: traced runs; evidence carries events seen and the maximal reads/byte ratio observed."]
    cfgs = ["tc", "sm", "tc_safe"] if ctx.tier == "quick" else list(CONFIGS)
    cdir, meta, tags, aggs = stage_stream(ctx, "mixed", cfgs, {"C20"})
    # partial lexers: after None the next poll must restart where the unfinished item started
    for cfg in cfgs[:2]:
        res = run_shards(cdir, tags[cfg], "partial", ctx.seed, ctx.tier, meta["shards"], cap=tier_params(ctx.tier)["cap"])
        a = collect_r(ctx, res, {"C20"}, f"R:partial:{tags[cfg]}")
        ctx.coverage["evaluations"] += a["splits"]
    for cfg, a in aggs.items():
        ctx.coverage["evaluations"] += a["cases"]
    first = next(iter(aggs.values()))
    ctx.coverage["distinct_nontrivial"] += first["traced_runs"]
    ctx.coverage["read_events_observed"] = sum(a["read_events"] for a in aggs.values())
    ctx.coverage["max_reads_per_examined_byte"] = max(a["max_reads_per_examined_byte"] for a in aggs.values())
    for cfg in cfgs:
        r = run_apidrv(ctx, build_apidrv(cfg), ["adv"], cfg)
        ctx.coverage["read_events_observed"] += r["summaries"].get("adv", {}).get("read_events", 0)



# ----------------------------------------------------------------------------------------------
# C16 - C19

def build_cli(sm=False, release=False):
    tdir = os.path.join(TARGET, "repo-cli-sm" if sm else "repo-cli")
    cmd = ["cargo", "build", "--offline", "-p", "logos-cli"] + (["--release"] if release else []) + (["--features", "state_machine_codegen"] if sm else [])
    e = env_base()
    e["CARGO_TARGET_DIR"] = tdir
    rc, out = sh(cmd, cwd=REPO, timeout=1800, env=e)
    if rc != 0:
        raise Inconclusive("logos-cli build failed:\n" + out[-2000:])
    return os.path.join(tdir, "release" if release else "debug", "logos-cli")


def hostile_envs():
    """Process environments the generated code must not depend on. (1) what cargo exports to build scripts and what a
    release build looks like from the inside, with one CARGO_FEATURE_* per feature declared in the repository's manifests and
    every environment variable name the repository's sources mention; (2) locale, time zone, terminal, home."""
    import re
    feats, names = set(), set()
    for root, _, files in os.walk(REPO):
        if "/target" in root or "/.git" in root:
            continue
        for f in files:
            fp = os.path.join(root, f)
            try:
                if f == "Cargo.toml":
                    txt = open(fp).read()
                    m = re.search(r"\[features\](.*?)(\n\[|\Z)", txt, re.S)
                    if m:
                        feats.update(re.findall(r"^([A-Za-z0-9_-]+)\s*=", m.group(1), re.M))
                elif f.endswith(".rs"):
                    names.update(re.findall(r"(?:var_os|var|env!|option_env!)\s*\(\s*\"([A-Za-z_][A-Za-z0-9_]*)\"", open(fp, errors="replace").read()))
            except OSError:
                pass
    a = {"PROFILE": "release", "DEBUG": "false", "OPT_LEVEL": "3", "TARGET": "x86_64-unknown-linux-gnu", "HOST": "x86_64-unknown-linux-gnu", "NUM_JOBS": "1",
         "OUT_DIR": os.path.join(WORK, "fake-out-dir"), "CARGO_PKG_NAME": "logos-codegen", "CARGO_PKG_VERSION": "9.9.9", "CARGO_CFG_TARGET_OS": "linux",
         "CARGO_CFG_DEBUG_ASSERTIONS": "", "CARGO_ENCODED_RUSTFLAGS": "-Copt-level=3", "RUSTC_BOOTSTRAP": "1", "CARGO_PRIMARY_PACKAGE": "1"}
    for ft in feats:
        a["CARGO_FEATURE_" + ft.upper().replace("-", "_")] = "1"
    for n in names:
        if n not in ("PATH", "HOME", "VERIF_ROOT", "VERIF_REPO", "CARGO_MANIFEST_DIR"):
            a.setdefault(n, "1")
    b = {"LANG": "tr_TR.UTF-8", "LC_ALL": "tr_TR.UTF-8", "LC_COLLATE": "C", "TZ": "Pacific/Kiritimati", "TERM": "dumb", "NO_COLOR": "1", "CLICOLOR_FORCE": "1",
         "HOME": "/nonexistent", "USER": "nobody", "COLUMNS": "20", "RUST_LOG": "trace", "RUST_BACKTRACE": "full", "SOURCE_DATE_EPOCH": "0", "TMPDIR": WORK}
    return [a, b], {"features_seen": sorted(feats), "env_names_in_sources": sorted(names)}


def check_C16(ctx):
    ctx.rules += ["vtool det: N definitions with many states/edges/LUTs (keyword lexers, Unicode classes, ambiguity-rejected definitions, loops), groups of look-alike definitions (identically spelled literals that differ in "
                  "ignore(case), subpattern bodies or token/regex) and the fixed specimens of the must-reject categories (diagnostic texts) are each generated in T threads per process (fresh hash-map keys per thread; "
                  "every thread of every process walks the definitions in another order: forward, reverse, rotated, shuffled, so each definition is generated after many different histories) and in P separate processes; "
                  "FNV hashes of the emitted code/diagnostic string and of the captured graph must be identical across all P*T runs, for both code generators. "
                  "Besides the P plain processes, two processes run in hostile environments (everything cargo exports to build scripts incl. one CARGO_FEATURE_* per declared feature and every "
                  "environment variable name the sources mention; Turkish locale, far time zone, no home) and one process is the generator built in the release profile: same hashes are due. "
                  "logos-cli (real binary, both generators): the same input generated twice into different files (second run in a hostile environment, every third with the release-built CLI) gives identical bytes and --check accepts the other run's output. "
                  "Non-trivial: definitions with at least 8 graph states."]
    n = 160 if ctx.tier == "quick" else 1200
    procs = 6 if ctx.tier == "quick" else 16
    threads = 4 if ctx.tier == "quick" else 8
    contexts = 0
    for sm in (False, True):
        build_harness(sm)
        outs = []
        envs, env_info = hostile_envs()
        build_harness(sm, release=True)
        def one(p):
            # processes procs..procs+1 run in hostile environments, the last one is the generator built in the release
            # profile (no debug assertions, optimised): same definitions, same feature set, so the same bytes are due
            extra = envs[p - procs] if procs <= p < procs + len(envs) else None
            return json.loads(vtool(["det", "--seed", str(ctx.seed), "--count", str(n), "--threads", str(threads), "--proc", str(p)], sm=sm, release=(p == procs + len(envs)), env_extra=extra))
        with ThreadPoolExecutor(max_workers=procs) as ex:
            outs = list(ex.map(one, range(procs + len(envs) + 1)))
        ctx.coverage["environments"] = {"plain": procs, "hostile": len(envs), "release_built_generator": 1, **env_info}
        for o in outs:
            for v in o["violations"]:
                ctx.add_violation(v)
        ref = outs[0]["hashes"]
        for pi, o in enumerate(outs[1:], 1):
            if o["hashes"] != ref:
                k = next(i for i in range(len(ref)) if o["hashes"][i] != ref[i])
                kind = "plain environment" if pi < procs else ("release-built generator" if pi == procs + len(envs) else f"hostile environment #{pi - procs}: " + " ".join(f"{a}={b}" for a, b in sorted(envs[pi - procs].items()))[:600])
                ctx.add_violation({"property": "C16", "level": "L", "rule": "processes-disagree", "codegen": "state_machine" if sm else "tailcall",
                                   "detail": f"definition #{k}: process 0 hashes {ref[k]}, process {pi} ({kind}) hashes {o['hashes'][k]} (seed {ctx.seed})",
                                   "definition_index": k})
        contexts += len(outs) * threads
        ctx.coverage["evaluations"] += outs[0]["definitions"] * len(outs) * threads
        if not sm:
            ctx.coverage["distinct_nontrivial"] += outs[0]["definitions_with_8_or_more_states"]
            ctx.coverage["samples"].append({"definition": outs[0]["sample"], "hashes": ref[0]})
        ctx.add_stage("det:" + ("sm" if sm else "tc"), {"definitions": outs[0]["definitions"], "fixed_specimens": outs[0]["fixed_specimens"], "processes": procs, "threads": threads, "definitions_with_8_or_more_states": outs[0]["definitions_with_8_or_more_states"], "rejected_definitions": outs[0].get("rejected_definitions")})
    ctx.coverage["hash_seed_contexts"] = contexts
    # CLI
    cdir = os.path.join(WORK, "cli16")
    shutil.rmtree(cdir, ignore_errors=True)
    vtool(["cli-gen", "--seed", str(ctx.seed), "--count", "12" if ctx.tier == "quick" else "60", "--dir", cdir])
    for sm in (False, True):
        exe = build_cli(sm)
        exe_rel = build_cli(sm, release=True)
        cli_envs = hostile_envs()[0]
        k = 0
        while os.path.exists(os.path.join(cdir, f"in_{k}.rs")):
            inp = os.path.join(cdir, f"in_{k}.rs")
            a, b = os.path.join(cdir, f"a_{k}_{int(sm)}.rs"), os.path.join(cdir, f"b_{k}_{int(sm)}.rs")
            r1, o1 = sh([exe, inp, "--output", a], timeout=120)
            # the second run: another environment, and for every third input the CLI built in the release profile
            e2 = env_base()
            e2.update(cli_envs[k % len(cli_envs)])
            r2, o2 = sh([exe_rel if k % 3 == 0 else exe, inp, "--output", b], timeout=120, env=e2)
            ctx.coverage["evaluations"] += 2
            if r1 != 0 or r2 != 0:
                ctx.inconclusive.append(f"logos-cli failed on generated input {k}: {o1[-200:]}")
            elif open(a, "rb").read() != open(b, "rb").read():
                ctx.add_violation({"property": "C16", "level": "R", "rule": "cli-runs-differ", "detail": f"two runs of logos-cli on {inp} produced different bytes (second run: {'release-built CLI, ' if k % 3 == 0 else ''}hostile environment #{k % len(cli_envs)})", "input": open(inp).read()})
            else:
                r3, o3 = sh([exe, inp, "--output", b, "--check"], timeout=120, env=e2)
                if r3 != 0:
                    ctx.add_violation({"property": "C16", "level": "R", "rule": "cli-check-rejects-own-output", "detail": o3[-300:], "input": open(inp).read()})
            k += 1
        ctx.add_stage("cli:" + ("sm" if sm else "tc"), {"inputs": k})


def _proc_fields(pid):
    """(state, syscall number, cpu ticks, threads, children) of a process, or None."""
    try:
        st = open(f"/proc/{pid}/stat").read()
        rest = st[st.rindex(")") + 2:].split()
        state, utime, stime, nthreads = rest[0], int(rest[11]), int(rest[12]), int(rest[17])
        sysc = open(f"/proc/{pid}/syscall").read().split()
        kids = []
        for t in os.listdir(f"/proc/{pid}/task"):
            try:
                kids += [int(x) for x in open(f"/proc/{pid}/task/{t}/children").read().split()]
            except OSError:
                pass
        return {"state": state, "syscall": sysc[0] if sysc else "?", "args": sysc[1:4], "cpu": utime + stime, "threads": nthreads, "children": kids}
    except (OSError, ValueError, IndexError):
        return None


def _deadlock_snapshot(pid):
    """A description of a parent-waits / child-blocked-on-pipe-to-parent cycle rooted at pid, or None.
    Logical state read from /proc, not a time measurement: the single-threaded parent sleeps in wait4 (syscall 61) for a
    child that sleeps in write (syscall 1) on a pipe whose read end the parent holds."""
    par = _proc_fields(pid)
    if not par or par["state"] != "S" or par["syscall"] != "61" or par["threads"] != 1 or len(par["children"]) != 1:
        return None
    kid_pid = par["children"][0]
    kid = _proc_fields(kid_pid)
    if not kid or kid["state"] != "S" or kid["syscall"] != "1" or kid["threads"] != 1:
        return None
    try:
        fd = int(kid["args"][0], 16)
        target = os.readlink(f"/proc/{kid_pid}/fd/{fd}")
        if not target.startswith("pipe:"):
            return None
        parent_ends = [os.readlink(f"/proc/{pid}/fd/{f}") for f in os.listdir(f"/proc/{pid}/fd")]
        wchar = [l for l in open(f"/proc/{kid_pid}/io").read().splitlines() if l.startswith("wchar")][0]
    except (OSError, ValueError, IndexError):
        return None
    if target not in parent_ends:
        return None
    return {"parent": pid, "child": kid_pid, "child_cmd": open(f"/proc/{kid_pid}/comm").read().strip(), "pipe": target, "cpu": (par["cpu"], kid["cpu"]), "child_io": wchar}


def run_cli(ctx, cmd, src_path, timeout=300):
    """Run the logos-cli binary. If it does not finish: a wait-for cycle between the CLI and its child, observed unchanged
    (same syscalls, no CPU time, no bytes written) over several samples, is a violation (the CLI can never emit its
    output); any other non-termination is inconclusive (watchdog)."""
    p = subprocess.Popen(cmd, env=env_base(), stdout=subprocess.PIPE, stderr=subprocess.STDOUT, text=True, errors="replace", start_new_session=True)
    t0 = time.time()
    snaps = []
    while True:
        try:
            out, _ = p.communicate(timeout=3)
            return p.returncode, out
        except subprocess.TimeoutExpired:
            pass
        snap = _deadlock_snapshot(p.pid)
        snaps = snaps + [snap] if snap is not None and (not snaps or snap == snaps[-1]) else ([snap] if snap is not None else [])
        if len(snaps) >= 4 or time.time() - t0 > timeout:
            try:
                os.killpg(p.pid, signal.SIGKILL)
            except OSError:
                pass
            p.communicate()
            if len(snaps) >= 4:
                ctx.add_violation({"property": "C17", "level": "R", "rule": "cli-deadlocked",
                                   "detail": f"{' '.join(os.path.basename(c) for c in cmd[:1]) + ' ' + ' '.join(cmd[2:])} never finishes: logos-cli sleeps in wait4 for its child '{snaps[-1]['child_cmd']}' "
                                             f"while the child sleeps in write() on {snaps[-1]['pipe']}, whose read end only logos-cli holds; state identical over {len(snaps)} samples "
                                             f"(cpu ticks {snaps[-1]['cpu']}, {snaps[-1]['child_io']})", "input": open(src_path).read()[:4000]})
                return -9, "DEADLOCK"
            raise Inconclusive(f"watchdog ({timeout}s) fired for: {' '.join(cmd)[:200]}")


DIRECTED_CLI_HISTORIES = [
    ["write", "crlf", "check", "check", "write", "check"],
    ["write", "append_newlines", "check", "write", "check"],
    ["write_fmt", "crlf", "check_fmt", "check", "write_fmt", "check_fmt"],
    ["check", "write", "corrupt", "check", "write", "check", "delete", "check"],
    ["write", "write_fmt", "check", "check_fmt", "write", "check_fmt", "check"],
    ["write", "cr_only", "check", "strip_final_newline", "check", "write", "crlf", "write", "check"],
    # files that hold the output modulo line endings without having the size of the all-LF or the all-CRLF rendering
    ["write", "strip_final_newline", "check", "crlf", "check", "write", "check"],
    ["write", "mixed_eol", "check", "mixed_eol", "check", "strip_final_newline", "check"],
    ["write_fmt", "mixed_eol", "check_fmt", "strip_final_newline", "check_fmt", "check"],
    ["write", "crlf", "strip_final_newline", "check", "mixed_eol", "check"],
]


def cli_history(ctx, exe, cdir, k, rng, steps, script=None):
    """Random (or scripted) write/check/format/corrupt/CRLF/delete history against a file model."""
    inp = os.path.join(cdir, f"in_{k}.rs")
    outp = os.path.join(cdir, f"hist_{k}.rs")
    if os.path.exists(outp):
        os.remove(outp)
    # expected contents (from the CLI itself, validated separately by the oracle)
    plain = os.path.join(cdir, f"out_{k}.rs")
    fmt = os.path.join(cdir, f"fmt_{k}.rs")
    want_plain = open(plain).read() if os.path.exists(plain) else None
    want_fmt = open(fmt).read() if os.path.exists(fmt) else None
    if want_plain is None:
        return 0
    def norm(s):
        # "ignoring line endings": a line ends in LF or CRLF, a final line ending is optional (lone CR is not a line ending)
        ls = s.split("\n")
        if ls and ls[-1] == "":
            ls.pop()
        return [l[:-1] if l.endswith("\r") else l for l in ls]
    hist = []
    n = 0
    for step in range(len(script) if script else steps):
        op = script[step] if script else rng.choice(["write", "check", "check", "write_fmt", "check_fmt", "corrupt", "crlf", "delete", "append_newlines", "cr_only", "strip_final_newline", "mixed_eol"])
        if op in ("write_fmt", "check_fmt") and want_fmt is None:
            continue
        hist.append(op)
        n += 1
        before = open(outp, "rb").read() if os.path.exists(outp) else None
        mt = os.stat(outp).st_mtime_ns if before is not None else None
        if op == "write":
            rc, o = run_cli(ctx, [exe, inp, "--output", outp], inp)
            now = open(outp).read() if os.path.exists(outp) else None
            if rc != 0 or now is None or norm(now) != norm(want_plain):
                ctx.add_violation({"property": "C17", "level": "R", "rule": "write-does-not-leave-output", "detail": f"history {hist}: rc={rc}, file does not hold the generated output", "input": open(inp).read()})
                return n
        elif op == "write_fmt":
            rc, o = run_cli(ctx, [exe, inp, "--output", outp, "--format"], inp)
            now = open(outp).read() if os.path.exists(outp) else None
            if rc != 0 or now is None or norm(now) != norm(want_fmt):
                ctx.add_violation({"property": "C17", "level": "R", "rule": "write-does-not-leave-output", "detail": f"history {hist}: rc={rc}, file does not hold the formatted output", "input": open(inp).read()})
                return n
        elif op in ("check", "check_fmt"):
            want = want_plain if op == "check" else want_fmt
            rc, o = run_cli(ctx, [exe, inp, "--output", outp, "--check"] + (["--format"] if op == "check_fmt" else []), inp)
            expect_ok = before is not None and norm(before.decode("utf-8", "replace")) == norm(want)
            if (rc == 0) != expect_ok:
                ctx.add_violation({"property": "C17", "level": "R", "rule": "check-status-wrong", "detail": f"history {hist}: --check exit status {rc}, file {'equals' if expect_ok else 'differs from'} the output (modulo line endings)", "input": open(inp).read()})
                return n
            after = open(outp, "rb").read() if os.path.exists(outp) else None
            mt2 = os.stat(outp).st_mtime_ns if after is not None else None
            if after != before or mt2 != mt:
                ctx.add_violation({"property": "C17", "level": "R", "rule": "check-modified-file", "detail": f"history {hist}: --check changed the file (content or mtime)", "input": open(inp).read()})
                return n
        elif op == "corrupt" and before is not None and len(before) > 10:
            pos = rng.randrange(len(before))
            open(outp, "wb").write(before[:pos] + b"X" + before[pos + 1:])
        elif op == "crlf" and before is not None:
            open(outp, "wb").write(before.replace(b"\r\n", b"\n").replace(b"\n", b"\r\n"))
        elif op == "mixed_eol" and before is not None:
            # some line endings LF, some CRLF (which ones depends on the position in the history)
            parts = before.replace(b"\r\n", b"\n").split(b"\n")
            k = len(hist) % 3
            open(outp, "wb").write(b"".join(p + (b"" if i == len(parts) - 1 else (b"\r\n" if i % 3 == k else b"\n")) for i, p in enumerate(parts)))
        elif op == "append_newlines" and before is not None:
            open(outp, "wb").write(before + b"\n\n")
        elif op == "cr_only" and before is not None:
            # classic-Mac line endings: str::lines() does not split at a lone CR, so this is a different text
            open(outp, "wb").write(before.replace(b"\r\n", b"\n").replace(b"\n", b"\r"))
        elif op == "strip_final_newline" and before is not None:
            open(outp, "wb").write(before.rstrip(b"\r\n"))
        elif op == "delete" and before is not None:
            os.remove(outp)
    return n


def check_C17(ctx):
    import random
    ctx.rules += ["F13 enum sources (derives in any position incl. path-qualified and several derive attributes, cfg_attr, repr, doc comments, attributes on variants and fields, lifetimes) are run through the real logos-cli binary built from /repo; "
                  "an independent syn-based oracle checks: output parses as a Rust file, first item == input enum minus logos/token/regex attributes and Logos derive paths (token comparison after canonical re-printing of derive lists), "
                  "remaining items == generate(input); with and without --format. Histories over {write, check, write --format, check --format, corrupt, CRLF, append newlines, delete} against a file model "
                  "(check status iff equal modulo line endings; check never changes content or mtime). Non-trivial: inputs whose derive list has a path-qualified entry or more than one derive attribute."]
    n = 40 if ctx.tier == "quick" else 400
    cdir = os.path.join(WORK, "cli17")
    shutil.rmtree(cdir, ignore_errors=True)
    meta = json.loads(vtool(["cli-gen", "--seed", str(ctx.seed), "--count", str(n), "--dir", cdir]))
    exe = build_cli(False)
    nontrivial = 0

    def gen(k):
        inp = os.path.join(cdir, f"in_{k}.rs")
        r1 = run_cli(ctx, [exe, inp, "--output", os.path.join(cdir, f"out_{k}.rs")], inp)
        r2 = run_cli(ctx, [exe, inp, "--output", os.path.join(cdir, f"fmt_{k}.rs"), "--format"], inp)
        return k, r1, r2
    with ThreadPoolExecutor(max_workers=NCPU) as ex:
        for k, (rc1, o1), (rc2, o2) in ex.map(gen, range(n)):
            src = open(os.path.join(cdir, f"in_{k}.rs")).read()
            if "::" in src.split("enum")[0] or src.count("#[derive(") > 1:
                nontrivial += 1
            if rc1 != 0:
                ctx.add_violation({"property": "C17", "level": "R", "rule": "cli-failed", "detail": f"logos-cli failed on a valid enum: {o1[-300:]}", "input": src})
            if rc2 != 0 and o2 != "DEADLOCK":
                # rustfmt refuses invalid Rust: a formatting failure means the plain output is not valid Rust
                ctx.add_violation({"property": "C17", "level": "R", "rule": "cli-format-failed", "detail": f"logos-cli --format failed (output is not valid Rust?): {o2[-300:]}", "input": src})
    # --format output must be rustfmt(plain output)
    for k in range(n):
        po, fo = os.path.join(cdir, f"out_{k}.rs"), os.path.join(cdir, f"fmt_{k}.rs")
        if os.path.exists(po) and os.path.exists(fo):
            pr = subprocess.run(["rustfmt"], input=open(po).read(), capture_output=True, text=True)
            if pr.returncode != 0:
                ctx.add_violation({"property": "C17", "level": "R", "rule": "output-not-formattable", "detail": f"rustfmt rejects the plain output of in_{k}.rs: {pr.stderr[-300:]}", "input": open(os.path.join(cdir, f"in_{k}.rs")).read()})
            elif pr.stdout != open(fo).read():
                ctx.add_violation({"property": "C17", "level": "R", "rule": "format-output-differs", "detail": f"--format output of in_{k}.rs is not rustfmt(plain output)", "input": open(os.path.join(cdir, f"in_{k}.rs")).read()})
            ctx.coverage["evaluations"] += 1
    res = json.loads(vtool(["cli-oracle", "--dir", cdir]))
    for p in res["problems"]:
        if p["problem"].startswith("HARNESS"):
            ctx.inconclusive.append(p["problem"])
            continue
        ctx.add_violation({"property": "C17", "level": "R", "rule": "cli-output-differs-from-oracle", "detail": f"in_{p['file']}.rs ({p['kind']}): {p['problem'][:600]}", "input": p["input"]})
    ctx.coverage["evaluations"] += res["checked"]
    ctx.coverage["distinct_nontrivial"] += nontrivial
    ctx.coverage["samples"] += [{"input": s} for s in meta["samples"][:2]]
    rng = random.Random(ctx.seed)
    steps = 0
    hist_n = 12 if ctx.tier == "quick" else 120
    for k in range(min(hist_n, n)):
        steps += cli_history(ctx, exe, cdir, k, rng, 14)
    # scripted histories: every state of the file (absent, exact, equal modulo line endings, different) meets both --check forms
    for k in range(min(4 if ctx.tier == "quick" else 24, n)):
        for script in DIRECTED_CLI_HISTORIES:
            steps += cli_history(ctx, exe, cdir, k, rng, 0, script=script)
    ctx.coverage["evaluations"] += steps
    ctx.add_stage("cli", {"inputs": n, "outputs_checked_by_oracle": res["checked"], "history_steps": steps, "histories": min(hist_n, n)})
    ctx.assumptions += ["syn 2 parses Rust as rustc does for these enum items", "the model's expected file contents are the CLI's own outputs, which the oracle validates separately"]


def check_C18(ctx):
    ctx.rules += ["vtool perm: base definitions decorated with as many named arguments as possible (priority, callback, ignore(case), allow_greedy; positional or named callback) and a combined #[logos(...)] attribute "
                  "(utf8, error / error(...), extras, crate, subpatterns, skips with arguments); all permutations of each pattern's named arguments (<= 24) and up to 24 dependency-respecting orders of the #[logos] items "
                  "(skips keep their relative order, subpatterns stay before use) go through generate(); acceptance must agree and the generated code (or the sorted diagnostics) must be identical to the canonical order's. "
                  "Orders that move skips relative to each other renumber the leaves: there acceptance (and the number of diagnostics) must agree, and the definition written with its skips in the new order must pass the "
                  "product check against its own reference whenever the canonical order does (includes skips that repeat a literal with other arguments). "
                  "Non-trivial: accepted base definitions for which at least one alternative order was compared."]
    n = 600 if ctx.tier == "quick" else 12000
    r = json.loads(vtool(["perm", "--seed", str(ctx.seed), "--count", str(n), "--threads", str(NCPU)]))
    for v in r["violations"]:
        ctx.add_violation(v)
    ctx.coverage["evaluations"] += r["evaluations"]
    ctx.coverage["distinct_nontrivial"] += r["nontrivial"]
    ctx.coverage["samples"] += r["samples"][:4]
    ctx.add_stage("perm", {k: r[k] for k in ("definitions", "evaluations", "orders_compared", "skip_orders_checked_against_reference", "nontrivial")})


def check_C19(ctx):
    ctx.rules += ["(L) catch_unwind around generate() for: must-reject category specimens (empty-matching, greedy unbounded dots at any nesting depth, start-anchored look-behind, unsupported syntax, undefined subpatterns, "
                  "non-UTF-8 in str mode, named/empty/multi-field variants), malformed and duplicated attribute arguments, and token-level mutations (delete/duplicate/swap/re-nest/insert/duplicate-argument/truncate) of valid attributes; "
                  "a panic or an accepted must-reject specimen is a violation. (R) a sample of the same inputs, one enum per module, compiled by the STABLE toolchain with --message-format=json: no 'proc-macro derive panicked' / ICE; "
                  "library-rejected clean inputs must surface their compile_error texts; library-accepted clean inputs must compile. Every accepted corpus definition must compile in all 4 configurations. "
                  "Resource specimens in subprocesses: nested counted repetitions (3 GiB address space) and patterns nested 32..100000 deep in four shapes on a 2 MiB stack (std's default thread stack): "
                  "a panic or a stack overflow is a violation, an allocation failure or watchdog is inconclusive/limit. "
                  "Non-trivial: inputs that were rejected with diagnostics."]
    n = 8000 if ctx.tier == "quick" else 200000
    r = json.loads(vtool(["fuzz", "--seed", str(ctx.seed), "--count", str(n), "--threads", str(NCPU)]))
    for v in r["violations"]:
        ctx.add_violation(v)
    ctx.coverage["evaluations"] += r["inputs"]
    ctx.coverage["distinct_nontrivial"] += r["nontrivial"]
    ctx.coverage["samples"] += r["samples"][:5]
    ctx.add_stage("fuzz", {"inputs": r["inputs"], "stats": r["stats"]})
    # resource specimens: nested counted repetitions whose priority arithmetic overflows long before the automaton
    # could be built. Run in a subprocess under an address-space limit: a panic of the derive is a violation,
    # running out of memory / time is the documented resource limit (not a verdict either way).
    import resource
    sdir = os.path.join(WORK, "c19-resource")
    os.makedirs(sdir, exist_ok=True)
    specimens = ['#[regex("((a{4294967295}){4294967295}){4294967295}")]', '#[regex("(((b{65536}){65536}){65536}){65536}x")]',
                 '#[regex("c((d{4000000000}|e){4000000000}){4000000000}")]', '#[logos(skip("((f{4294967295}){4294967295}){4294967295}"))]']
    # nesting depth: groups, non-capturing groups, repeated groups and alternation chains nested d deep; the derive runs
    # on a thread with std's default stack of 2 MiB and must finish (implemented or cleanly rejected) at every depth
    depths = [64, 200, 250, 251, 400, 700, 1000, 1500, 2000, 3000, 4000, 4096, 4097, 6000, 20000] if ctx.tier == "quick" else \
             [32, 64, 128, 200, 249, 250, 251, 252, 300, 400, 500, 700, 1000, 1300, 1500, 2000, 2500, 3000, 3500, 4000, 4095, 4096, 4097, 5000, 6000, 8192, 10000, 20000, 65536, 100000]
    deep = []
    for d in depths:
        for (o, c) in (("(", ")"), ("(?:", ")"), ("(", ")+"), ("(?:x|", ")")):
            deep.append((d, '#[regex("' + o * d + "a" + c * d + '")]'))
    exe = build_harness()
    res_stats = {"panicked": 0, "resource_limit": 0, "finished": 0, "depth_specimens": len(deep), "recursive_type_specimens": 0, "depth_accepted": 0, "depth_rejected": 0, "max_depth_accepted": 0}
    def run_depth(item):
        k, (d, attr) = item
        src = f"#[derive(Logos)]\nenum T {{\n    {attr}\n    A,\n    #[token(\"q\")]\n    B,\n}}\n"
        fp = os.path.join(sdir, f"d{k}.rs")
        open(fp, "w").write(src)
        try:
            p = subprocess.run([exe, "show", "--file", fp, "--stack-kib", "2048", "--brief"], env=env_base(), timeout=600, stdout=subprocess.PIPE, stderr=subprocess.STDOUT, text=True, errors="replace")
            return d, attr, p.returncode, p.stdout
        except subprocess.TimeoutExpired:
            return d, attr, None, "TIMEOUT"
    # concrete types defined in terms of themselves: substitution must not recurse without end
    rec_sources = ['#[derive(Logos)]\n#[logos(type T = Option<T>)]\nenum Tok<T> {\n    #[token("a", |_| None)]\n    A(T),\n    #[token("b")]\n    B,\n}\n',
                   '#[derive(Logos)]\n#[logos(type T = Vec<U>, type U = (u8, T))]\nenum Tok<T, U> {\n    #[token("a", cb)]\n    A(T),\n    #[token("b", cb2)]\n    B(U),\n}\n',
                   '#[derive(Logos)]\n#[logos(type U = T, type T = U)]\nenum Tok<\'a, T, U> {\n    #[token("a")]\n    A(&\'a str),\n    #[token("b", cb2)]\n    B(U),\n}\n',
                   '#[derive(Logos)]\n#[logos(type T = T)]\nenum Tok<T> {\n    #[token("b", cb2)]\n    B(T),\n}\n']
    # cycles reachable only through a parameter that is not itself part of the cycle, cycles of every length among
    # up to five parameters, parameters mentioned several times: seeded random "type X = F<Y, Z>" assignments
    import random as _random
    rrng = _random.Random(ctx.seed * 7919 + 13)
    rec_cyclic = {}
    rec_sources.append('#[derive(Logos)]\n#[logos(type A = Box<B>, type B = Vec<C>, type C = Option<B>)]\nenum Tok<A, B, C> {\n    #[token("a", cb)]\n    X(A),\n    #[token("b", cb2)]\n    Y(B),\n    #[token("c", cb3)]\n    Z(C),\n}\n')
    wrappers = ["Box<{}>", "Vec<{}>", "Option<{}>", "({}, u8)", "[{}; 2]", "Result<{}, {}>", "&'static {}", "fn({}) -> {}"]
    for _ in range(40 if ctx.tier == "quick" else 400):
        n = rrng.randint(3, 5)
        names = [chr(ord("A") + i) for i in range(n)]
        items, variants = [], []
        for i, nm in enumerate(names):
            k = rrng.choice([0, 1, 1, 1, 2])
            w = rrng.choice(wrappers)
            if k == 0:
                ty = rrng.choice(["u8", "String", "&'static str"])
            else:
                picks = [rrng.choice(names) for _ in range(w.count("{}"))]
                ty = w.format(*picks)
            items.append(f"type {nm} = {ty}")
            variants.append(f'    #[token("{chr(ord("a") + i)}", cb{i})]\n    V{i}({nm}),\n')
        rrng.shuffle(items)
        # my own verdict: is some parameter defined (transitively) in terms of itself?
        import re as _re
        mention = {it.split()[1]: set(_re.findall(r"\b[A-E]\b", it.split("=", 1)[1])) for it in items}
        def reaches(a, b, seen=None):
            seen = seen or set()
            for x in mention[a]:
                if x == b or (x not in seen and reaches(x, b, seen | {x})):
                    return True
            return False
        rec_cyclic["#[derive(Logos)]\n#[logos(" + ", ".join(items) + ")]\nenum Tok<" + ", ".join(names) + "> {\n" + "".join(variants) + "}\n"] = any(reaches(nm, nm) for nm in names)
        rec_sources.append("#[derive(Logos)]\n#[logos(" + ", ".join(items) + ")]\nenum Tok<" + ", ".join(names) + "> {\n" + "".join(variants) + "}\n")
    res_stats_rec = len(rec_sources)

    def run_rec(item):
        k, src = item
        fp = os.path.join(sdir, f"rec{k}.rs")
        open(fp, "w").write(src)
        try:
            p = subprocess.run([exe, "show", "--file", fp, "--stack-kib", "2048", "--brief"], env=env_base(), timeout=600, stdout=subprocess.PIPE, stderr=subprocess.STDOUT, text=True, errors="replace")
            return -1, src, p.returncode, p.stdout
        except subprocess.TimeoutExpired:
            return -1, src, None, "TIMEOUT"
    res_stats["recursive_type_specimens"] = res_stats_rec
    with ThreadPoolExecutor(max_workers=NCPU) as ex:
        for d, attr, rc, out in list(ex.map(run_depth, enumerate(deep))) + list(ex.map(run_rec, enumerate(rec_sources))):
            ctx.coverage["evaluations"] += 1
            brief = attr[:40] + f"...(nesting depth {d})" if d >= 0 else attr
            if "overflowed its stack" in out or (rc is not None and rc < 0 and -rc in (signal.SIGSEGV, signal.SIGBUS)):
                ctx.add_violation({"property": "C19", "level": "L", "rule": "derive-overflowed-stack", "detail": (f"pattern nested {d} deep" if d >= 0 else "self-referential concrete type") + f": the derive overflowed a 2 MiB stack instead of finishing or rejecting: {out.strip()[-160:]}", "definition": {"source": brief}})
            elif "Panicked(" in out:
                ctx.add_violation({"property": "C19", "level": "L", "rule": "derive-panicked", "detail": out[out.index("Panicked("):][:300], "definition": {"source": brief}})
            elif rc is None:
                ctx.inconclusive.append(f"depth specimen {brief}: watchdog fired")
            elif '"outcome":"Accepted"' in out and d < 0 and rec_cyclic.get(attr):
                ctx.add_violation({"property": "C19", "level": "L", "rule": "recursive-type-parameters-accepted", "detail": "a #[logos(type ..)] assignment in which a parameter is defined in terms of itself was accepted (it cannot be implemented)", "definition": {"source": attr}})
            elif '"outcome":"Accepted"' in out:
                if d < 0:
                    res_stats["type_assignments_accepted"] = res_stats.get("type_assignments_accepted", 0) + 1
                res_stats["depth_accepted"] += 1
                res_stats["max_depth_accepted"] = max(res_stats["max_depth_accepted"], d)
            elif '"outcome":"Rejected' in out:
                if d < 0:
                    res_stats["type_assignments_rejected"] = res_stats.get("type_assignments_rejected", 0) + 1
                res_stats["depth_rejected"] += 1
            else:
                ctx.inconclusive.append(f"depth specimen {brief}: unexpected output rc={rc}: {out[-200:]}")
    for k, attr in enumerate(specimens):
        src = f"#[derive(Logos)]\n{attr if attr.startswith('#[logos') else ''}\nenum T {{\n    {attr if not attr.startswith('#[logos') else ''}\n    #[token(\"q\")]\n    A,\n}}\n" if attr.startswith('#[logos') else f"#[derive(Logos)]\nenum T {{\n    {attr}\n    A,\n    #[token(\"q\")]\n    B,\n}}\n"
        fp = os.path.join(sdir, f"r{k}.rs")
        open(fp, "w").write(src)
        def limit():
            resource.setrlimit(resource.RLIMIT_AS, (3 << 30, 3 << 30))
        try:
            p = subprocess.run([exe, "show", "--file", fp], env=env_base(), preexec_fn=limit, timeout=120, stdout=subprocess.PIPE, stderr=subprocess.STDOUT, text=True, errors="replace")
            out = p.stdout
        except subprocess.TimeoutExpired:
            out = "TIMEOUT"
        ctx.coverage["evaluations"] += 1
        if "Panicked(" in out:
            res_stats["panicked"] += 1
            ctx.add_violation({"property": "C19", "level": "L", "rule": "derive-panicked", "detail": out[out.index("Panicked("):][:300], "definition": {"source": src}})
        elif "memory allocation" in out or out == "TIMEOUT" or "Killed" in out:
            res_stats["resource_limit"] += 1
        else:
            res_stats["finished"] += 1
    ctx.add_stage("resource-specimens", res_stats)
    # real rustc, stable toolchain
    m = 220 if ctx.tier == "quick" else 1000
    rdir = os.path.join(WORK, "rsample")
    shutil.rmtree(rdir, ignore_errors=True)
    vtool(["rsample-gen", "--seed", str(ctx.seed), "--count", str(m), "--dir", rdir])
    e = env_base()
    e["CARGO_TARGET_DIR"] = os.path.join(TARGET, "rsample")
    idx = json.load(open(os.path.join(rdir, "index.json")))["modules"]
    diags = {}
    saw_compiler = False
    stderr_tail = ""
    for sub in ("acc", "mal", "rej"):
        try:
            p = subprocess.run(["cargo", "+stable", "build", "--offline", "--message-format=json"], cwd=os.path.join(rdir, sub), env=e, timeout=3000, stdout=subprocess.PIPE, stderr=subprocess.PIPE, text=True, errors="replace")
        except subprocess.TimeoutExpired:
            raise Inconclusive("rsample build watchdog fired (derive termination is bounded by wall clock only)")
        stderr_tail += p.stderr[-300:]
        for line in p.stdout.splitlines():
            try:
                msg = json.loads(line)
            except ValueError:
                continue
            if msg.get("reason") == "compiler-artifact" and msg.get("target", {}).get("name") == "logos":
                saw_compiler = True
            if msg.get("reason") != "compiler-message":
                continue
            d = msg["message"]
            if not d["level"].startswith("error"):
                continue
            f = sub + "/" + d["spans"][0]["file_name"] if d["spans"] else "?"
            diags.setdefault(f, []).append(d["message"])
    if not saw_compiler and not diags:
        ctx.inconclusive.append("rsample: rustc produced no usable output: " + stderr_tail)
    panics = rejected_seen = accepted_ok = 0
    for mod in idx:
        ds = diags.get(f"{mod['crate']}/src/m{mod['module']}.rs", [])
        bad = [d for d in ds if "panicked" in d or "internal compiler error" in d]
        if bad:
            panics += 1
            ctx.add_violation({"property": "C19", "level": "R", "rule": "derive-panicked-under-rustc", "detail": bad[0][:400], "definition": {"source": mod["source"]}})
            continue
        if not mod["clean"]:
            continue
        if mod["library_outcome"] == "accepted":
            if ds:
                ctx.add_violation({"property": "C19", "level": "R", "rule": "accepted-definition-does-not-compile", "detail": "; ".join(ds[:3])[:500], "definition": {"source": mod["source"]}})
            else:
                accepted_ok += 1
        elif mod["library_outcome"] == "rejected":
            missing = [m for m in mod["library_messages"] if not any(m in d for d in ds)]
            if missing:
                ctx.add_violation({"property": "C19", "level": "R", "rule": "diagnostic-lost", "detail": f"compile_error text {missing[0][:200]!r} did not reach rustc's diagnostics: {ds[:2]}", "definition": {"source": mod["source"]}})
            else:
                rejected_seen += 1
    for f in diags.get("?", []):
        if "panicked" in f:
            ctx.add_violation({"property": "C19", "level": "R", "rule": "derive-panicked-under-rustc", "detail": f[:400]})
    ctx.coverage["evaluations"] += len(idx)
    ctx.coverage["distinct_nontrivial"] += rejected_seen
    ctx.add_stage("rsample(stable rustc)", {"modules": len(idx), "clean_rejected_with_diagnostics_seen": rejected_seen, "clean_accepted_compiled": accepted_ok, "panics": panics,
                                            "toolchain": sh(["rustc", "+stable", "--version"])[1].strip()})
    # every accepted corpus definition must compile in all four configurations
    tp = tier_params(ctx.tier)
    cdir, meta = gen_corpus("mixed", ctx.seed, ctx.tier, tp["mixed"], tp["max_states"])
    for cfg in CONFIGS:
        tag, out = build_corpus(cdir, cfg)
        if tag is None:
            errs = [l for l in out.splitlines() if l.startswith("error")][:5]
            ctx.add_violation({"property": "C19", "level": "R", "rule": "accepted-definition-does-not-compile", "config": cfg, "detail": f"corpus of {meta['definitions']} accepted definitions failed to compile in config {cfg}: {errs}", "output_tail": out[-3000:]})
    ctx.coverage["evaluations"] += meta["definitions"] * 4
    ctx.add_stage("corpus-compiles", {"definitions": meta["definitions"], "configs": list(CONFIGS)})
    ctx.assumptions += ["'terminates' is bounded by a wall-clock watchdog (inconclusive when it fires)"]


CHECKS = {
    "C01": check_C01, "C02": check_C02, "C03": check_C03, "C04": check_C04, "C07": check_C07, "C08": check_C08,
    "C09": check_C09, "C10": check_C10, "C11": check_C11, "C12": check_C12,
    "C16": check_C16, "C17": check_C17, "C18": check_C18, "C19": check_C19,
    "C05": check_C05, "C06": check_C06, "C13": check_C13, "C14": check_C14, "C15": check_C15, "C20": check_C20,
}


def do_setup():
    """Build everything the quick checks need (default seed) so that they start warm."""
    build_harness()
    # C16 compares the generator built in the debug and in the release profile, for both code generators
    with ThreadPoolExecutor(max_workers=2) as ex:
        list(ex.map(lambda sm: (build_harness(sm), build_harness(sm, release=True)), (False, True)))
    for sm in (False, True):
        build_cli(sm)
        build_cli(sm, release=True)
    ctx = Ctx("setup", "quick", int(os.environ.get("VERIF_SEED", "1")))
    ensure_corpus(ctx, "mixed", list(CONFIGS))
    print("setup done")
    return 0


def replay(prop, path):
    v = json.load(open(path))
    print("recorded violation:")
    print(json.dumps({k: v[k] for k in v if k not in ("definition", "output_tail", "extra")}, indent=1, default=str)[:3000])
    if v.get("level") == "L" and isinstance(v.get("definition"), dict) and "pats" in v["definition"]:
        print(vtool(["replay", "--file", path]))
        return 0
    if isinstance(v.get("definition"), dict) and v["definition"].get("source") and "def" not in v:
        # raw source (C19 specimens, rsample): show what the library entry point does with it now
        tmp = os.path.join(WORK, "replay-src.rs")
        open(tmp, "w").write(v["definition"]["source"])
        print(vtool(["show", "--file", tmp])[:3000])
        return 0
    if str(v.get("stage", "")).startswith("apidrv:"):
        _, tag, subs = v["stage"].split(":", 2)
        ctx = Ctx(prop, v.get("tier", "quick"), v.get("seed", 1))
        cfg = tag.replace("-release", "").replace("-asan", "").replace("miri-", "")
        if tag.startswith("miri-"):
            res = miri_apidrv(ctx, subs.split("+"), cfg, release=tag.endswith("-release"))
        else:
            exe = build_apidrv(cfg, release="-release" in tag, asan="-asan" in tag)
            res = run_apidrv(ctx, exe, subs.split("+"), tag)
        for x in res["violations"][:40]:
            print("  ", x)
        return 0
    if v.get("input") and prop in ("C16", "C17"):
        tmp = os.path.join(WORK, "replay-cli.rs")
        open(tmp, "w").write(v["input"])
        rc, out = sh([build_cli(False), tmp], timeout=120)
        print(f"logos-cli rc={rc}\n{out[:3000]}")
        return 0
    if "def" not in v:
        return 0
    seed, tier = v.get("seed", 1), v.get("tier", "quick")
    ctx = Ctx(prop, tier, seed)
    stage = v.get("stage", "")
    profile = "mixed"
    for p in ("mixed", "callbacks", "twins", "literals"):
        if f":{p}:" in stage:
            profile = p
    cfg = v.get("config", "tc")
    cdir, meta, tags = ensure_corpus(ctx, profile, [cfg])
    corpus = json.load(open(os.path.join(cdir, "corpus.json")))
    names = [d["def"]["name"] for d in corpus["defs"]]
    if v.get("def") not in names:
        print("definition not in regenerated corpus")
        return 2
    for i in range(meta["shards"]):
        cmd = [os.path.join(cdir, "bin", tags[cfg], f"shard{i}"), "--corpus", os.path.join(cdir, "corpus.json"), "--mode", v.get("mode", "stream"),
               "--seed", str(seed), "--tier", tier, "--only", v["def"], "--input", v.get("input_hex", "")]
        rc, out = sh(cmd, cwd=cdir, timeout=600)
        if "REPLAY" in out:
            print(out)
    return 0


def main(argv):
    if not argv:
        print(__doc__)
        return 2
    os.makedirs(WORK, exist_ok=True)
    lock = open(os.path.join(WORK, ".lock"), "w")
    fcntl.flock(lock, fcntl.LOCK_EX)
    if argv[0] == "setup":
        try:
            return do_setup()
        except Inconclusive as e:
            print(f"setup failed: {e}")
            return 1
    prop = argv[0]
    if len(argv) >= 3 and argv[1] == "--replay":
        return replay(prop, argv[2])
    tier = argv[1] if len(argv) > 1 else os.environ.get("VERIF_TIER", "quick")
    seed = int(os.environ.get("VERIF_SEED", "1"))
    if prop not in CHECKS:
        print(f"unknown property {prop}")
        return 2
    ctx = Ctx(prop, tier, seed)
    try:
        CHECKS[prop](ctx)
    except Inconclusive as e:
        ctx.inconclusive.append(str(e))
        ctx.fatal_inconclusive = True
    return finish(ctx)
