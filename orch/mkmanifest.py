#!/usr/bin/env python3
"""Regenerates /verif/MANIFEST.json from the table below (kept in one place so it stays valid)."""
import json
import subprocess

HOOK_COMMITS = ["072d52a", "c4c9b5a", "3ca0f62"]

TB = ("trusted: regex-syntax 0.8.5 / regex-automata 0.4.9 as the specification of a single pattern's language (the reference never sees logos's "
      "merged DFA), rustc/cargo, the harness itself (validated against seeded defects, see DESIGN.md section 8). Sampled: definitions and inputs; "
      "per sampled definition the product check closes the input quantifier at graph level.")

CLAIMS = {
    "C01": ("runtime monitoring: reference-model monitor on hooked graph state (product exploration over all inputs) + online differential monitor on the compiled lexers in 4 feature configs",
            "L: captured graph x independent reference automata, all inputs per definition; R: compiled lexers vs reference vs graph interpreter on graph-directed inputs", "5 C01, 3.3"),
    "C02": ("runtime monitoring: product-check rule 'no edge into a dead end' on hooked graph state + online error-span/error-value monitor on compiled lexers",
            "error spans and recovery compared item by item with the reference; error values through custom error types, error callbacks and pattern callbacks", "5 C02"),
    "C03": ("runtime monitoring: read-budget hook (logical termination), online tiling/progress assertions on every run, empty-match acceptance monitor",
            "termination decided by a read budget in the read-trace hook; spans, gaps and end position asserted on every executed run", "5 C03"),
    "C04": ("runtime monitoring: span-boundary assertions before slicing on every run + UTF-8 language-inclusion monitor on accepted definitions",
            "boundaries checked before slice()/remainder(); accepted str-mode patterns/subpatterns searched for matches along ill-formed byte paths; bump matrix on str sources (span invariant before slicing)", "5 C04, 12.6"),
    "C07": ("runtime monitoring: history monitor over (input, split) pairs and chunk schedules with a reference determinedness oracle + per-state commit-condition monitor on hooked graph state (all inputs per definition) + callback-log prefix monitor for partial lexers",
            "real partial lexer vs real one-shot lexer for all split points, eagerness/over-commitment decided on the reference over all continuations; L: graph state without transitions vs reference determinedness at every reachable buffer-end point", "5 C07, 12.7, 12.8"),
    "C08": ("runtime monitoring: acceptance monitor against exhaustive exploration of the reference product",
            "both directions of the iff, plus reported conflict groups, per generated definition", "5 C08"),
    "C09": ("runtime monitoring: assertion on hooked leaf priorities against two independent oracles (AST recursion, shortest match in characters)",
            "captured priorities of every leaf compared with the documented rule", "5 C09"),
    "C10": ("runtime monitoring: product check of the captured graph against hand-built literal / simple-case-fold automata + compiled lexers on case-toggled inputs",
            "literals over a hostile alphabet in token / ignore(case) / regex / skip forms", "5 C10"),
    "C11": ("runtime monitoring: product check of the captured graph against a reference built with an independent subpattern inliner",
            "subpattern definitions of every shape; undefined/forward references must be rejected; acceptance compared in both directions with the written-out definition", "5 C11, 12.6"),
    "C12": ("runtime monitoring: twin-definition differential monitor (utf8 on/off) on compiled lexers + product check of both twins",
            "same valid UTF-8 input through both twins; byte twin on ill-formed input against the reference; a fixed twin pair with bumping callbacks", "5 C12, 12.6"),
}

CLAIMS.update({
    "C05": ("runtime monitoring + sanitizers: AddressSanitizer build of the whole corpus workload, Miri on corpus shards and the API driver, valgrind memcheck on the uninstrumented (thorough: optimised) corpus binaries, Source::read model, offline join of observation logs default vs forbid_unsafe",
            "exactly sized heap blocks under ASan/Miri/memcheck, read() model over all lengths 0..=40 and offsets, cross-build observation join, panics reported", "5 C05, 2.3, 12.9"),
    "C06": ("runtime monitoring: offline join of observation logs (results, spans, callback invocations) tail-call vs state-machine builds + stack-address probe + long inputs",
            "same cases in both code generators must hash identically; stack probe spread must be 0 up to 10^6 skips / 4 MB tokens", "5 C06"),
    "C13": ("runtime monitoring: exactly-once / ordering monitor over callback invocation logs recorded in Extras + documented-table oracle replayed on the reference segmentation",
            "every supported callback return type, labelled/inline, with bump, with custom error types and error callbacks, 4 configs; the same definitions as partial lexers (invocation log is a leading run of the one-shot log)", "5 C13, 12.8"),
    "C14": ("runtime monitoring: model-based monitor over random public-API histories (next/bump/clone/morph/spanned/accessors), also under Miri and ASan",
            "accessors predicted after every step; clone race; clone_from across modes; a live SpannedIter polled after None; heap-owning extras", "5 C14, 12.6"),
    "C15": ("runtime monitoring + sanitizers: bump outcome model and span-invariant assertion before slicing, debug/release x default/forbid_unsafe, Miri (--release) and ASan",
            "all n classes incl. wrap-around, use after caught panic", "5 C15"),
    "C20": ("runtime monitoring: online trace checker over the read-trace hook (monotone offsets, attempt start, read-count bound) on corpus and adversarial workloads",
            "per-attempt monotonicity and 4*(examined+2)+16 bound; maximal observed ratio reported", "5 C20"),
})

CLAIMS.update({
    "C16": ("runtime monitoring: output/graph hash comparison across threads, processes (fresh hash-map seeds), hostile process environments and build profiles of the generator, both code generators, plus byte comparison of repeated logos-cli runs",
            "P processes x T threads per definition + 2 hostile environments + release-built generator; CLI twice (second run hostile environment / release-built CLI) + --check", "5 C16, 12.6"),
    "C17": ("runtime monitoring: independent syn-based oracle over the real logos-cli binary's output + file-model monitor over write/check histories",
            "stripped enum (token comparison), implementation == generate(input as rustc loads it), valid Rust, --format == rustfmt(plain), check status/mtime model over random and scripted histories, CRLF input files", "5 C17, 12.6, 12.10"),
    "C18": ("runtime monitoring: differential monitor over all permutations of named attribute arguments and dependency-respecting orders of #[logos(...)] items through the real generate()",
            "acceptance must agree; for accepted definitions the generated code must be identical to the canonical order's (skip reorderings: same leaves, still implements its reference)", "5 C18, 12.6"),
    "C19": ("runtime monitoring: panic monitor (catch_unwind) and must-reject category oracle over generated, malformed and mutated inputs; the same through real stable rustc (diagnostics JSON); corpus must compile",
            "library entry point and real procedural macro on the stable toolchain", "5 C19"),
})

PENDING = {}


def main():
    props = [json.loads(l) for l in open("/verif/properties.jsonl")]
    checks, na = [], []
    for p in props:
        pid = p["id"]
        if pid in CLAIMS:
            tech, text, ref = CLAIMS[pid]
            checks.append({
                "property_id": pid,
                "quick_cmd": f"./check {pid} quick",
                "thorough_cmd": f"./check {pid} thorough",
                "evidence_file": f"/verif/evidence/{pid}.json",
                "replay_cmd_template": f"./check {pid} --replay {{path}}",
                "engine": "check",
                "level_claimed": {"category": "exploration", "text": "Held on the executions produced (counts in the evidence file): " + text + ". Not a proof: definitions and inputs are sampled.", "design_ref": "DESIGN.md section " + ref},
                "level_note": TB,
                "technique": tech,
            })
        else:
            na.append({"property_id": pid, "reason": PENDING.get(pid, "check under construction in this session (monitor designed in DESIGN.md section 5, not yet registered)")})
    m = {
        "version": 1,
        "setup_cmd": "./check setup",
        "hooks": {
            "guard": "cargo feature verif_hooks (crates logos and logos-codegen; off by default)",
            "enable": "harness crates depend on /repo by path with features = [\"verif_hooks\"] (logos: read trace; logos-codegen: graph capture)",
            "baseline_off_cmd": "/verif/baseline.sh",
            "source_commits": HOOK_COMMITS,
            "add_only": True,
        },
        "engines": [{"name": "check", "path": "/verif/check", "serves_properties": sorted(CLAIMS), "kind_free_text": "python orchestrator over Rust harness crates (vmon reference oracle/monitors, vtool L-level, vrt R-level driver, generated corpus crates)"}],
        "checks": checks,
        "not_applicable": na,
        "notes": "Verdicts are three-valued: exit 0 held, exit 1 + VIOLATION lines, exit 2 + INCONCLUSIVE lines (watchdog, build failure of the harness, nothing observed). VERIF_SEED selects corpus and inputs.",
    }
    json.dump(m, open("/verif/MANIFEST.json", "w"), indent=1)
    r = subprocess.run(["python3-vt", "-c", "import json,jsonschema;jsonschema.validate(json.load(open('/verif/MANIFEST.json')),json.load(open('/root/.vp/MANIFEST.schema.json')));print('manifest valid')"], capture_output=True, text=True)
    print(r.stdout, r.stderr[-500:])


if __name__ == "__main__":
    main()
