#!/usr/bin/env python3
"""Run the quick check of each seeded change's property with the change applied to /repo
(undone straight afterwards); write seeded/RESULTS.json and seeded/RESULTS.md.
The check runs with VERIF_FAILFAST=1 (stop at the first violation) unless VERIF_FAILFAST=0 is set.

usage: campaign.py [id ...]     (default: all)
"""
import json, os, subprocess, sys, time, glob

HERE = os.path.dirname(os.path.dirname(os.path.abspath(__file__)))
SEEDED = HERE + "/seeded"
REPO = os.environ.get("VP_RUN_REPO") or os.environ.get("VERIF_REPO") or "/repo"
if os.environ.get("VP_RUN_REPO"):
    # background snapshot run (vp run --with-repo): work on the snapshot of /repo, so that /repo stays free
    os.environ["VERIF_REPO"] = REPO
    subprocess.run(f"sed -i 's#path = \"/repo#path = \"{REPO}#' {HERE}/harness/*/Cargo.toml", shell=True)
SUFFIX = ("-seed" + os.environ["VERIF_SEED"]) if os.environ.get("VERIF_SEED") not in (None, "1") else ""


def sh(cmd, **kw):
    return subprocess.run(cmd, shell=True, text=True, stdout=subprocess.PIPE, stderr=subprocess.STDOUT, **kw)


def main():
    ids = sys.argv[1:] or sorted(os.path.basename(d) for d in glob.glob(SEEDED + "/*") if os.path.isdir(d))
    results = {}
    if os.path.exists(SEEDED + f"/RESULTS{SUFFIX}.json"):
        results = json.load(open(SEEDED + f"/RESULTS{SUFFIX}.json"))
    if sh(f"git -C {REPO} diff --quiet").returncode != 0:
        print("repo dirty, refusing")
        return 2
    for sid in ids:
        d = f"{SEEDED}/{sid}"
        meta = json.load(open(d + "/meta.json"))
        prop = meta["property"]
        if meta.get("obsolete"):
            results[sid] = {"property": prop, "status": "obsolete: " + meta["obsolete"][:120], "caught": None}
            continue
        rev = "-R" if meta.get("apply_reversed") else ""
        r = sh(f"git -C {REPO} apply {rev} {d}/patch.diff")
        if r.returncode != 0:
            results[sid] = {"property": prop, "status": "patch does not apply", "detail": r.stdout[-300:], "caught": False}
            print(sid, "PATCH DOES NOT APPLY", flush=True)
            json.dump(results, open(SEEDED + f"/RESULTS{SUFFIX}.json", "w"), indent=1)
            continue
        t = time.time()
        try:
            c = sh(f"{HERE}/check {prop} quick 2>/dev/null", timeout=3000, env=dict(os.environ, VERIF_FAILFAST=os.environ.get("VERIF_FAILFAST", "1"), VERIF_EVIDENCE_DIR=HERE + "/work/campaign-evidence"))
            out, rc = c.stdout, c.returncode
        except subprocess.TimeoutExpired:
            out, rc = "", -1
        finally:
            sh(f"git -C {REPO} checkout -- .")
        viol = [l for l in out.splitlines() if l.startswith("VIOLATION")]
        rules = sorted(set(l.strip().split(" ")[0].replace("rule=", "") for l in out.splitlines() if l.strip().startswith("rule=")))
        first = next((l.strip() for l in out.splitlines() if l.strip().startswith("rule=")), "")
        results[sid] = {"property": prop, "check": f"./check {prop} quick", "exit_code": rc, "violation_lines": len(viol), "rules": rules[:6],
                        "first_witness": first[:300], "caught": rc == 1 and len(viol) > 0, "wall_s": round(time.time() - t, 1)}
        print(sid, "CAUGHT" if results[sid]["caught"] else f"MISSED rc={rc}", rules[:3], flush=True)
        json.dump(results, open(SEEDED + f"/RESULTS{SUFFIX}.json", "w"), indent=1)
    json.dump(results, open(SEEDED + f"/RESULTS{SUFFIX}.json", "w"), indent=1)
    with open(SEEDED + f"/RESULTS{SUFFIX}.md", "w") as f:
        f.write("# Seeded changes versus the quick checks\n\nEach change is applied to /repo, the quick check of its property is run, the change is undone.\n\n| id | property | caught | rules that fired | first witness |\n|---|---|---|---|---|\n")
        for sid in sorted(results):
            r = results[sid]
            f.write(f"| {sid} | {r['property']} | {'yes' if r.get('caught') else ('-- (' + str(r.get('status')) + ')' if r.get('caught') is None and r.get('status') else 'NO (' + str(r.get('status', r.get('exit_code'))) + ')')} | {', '.join(r.get('rules', []))} | {r.get('first_witness', '')[:160].replace('|', '/')} |\n")
    n = sum(1 for r in results.values() if r.get("caught"))
    live = sum(1 for r in results.values() if r.get("caught") is not None)
    print(f"{n}/{live} caught ({len(results) - live} obsolete)")
    return 0


if __name__ == "__main__":
    sys.exit(main())
