#!/bin/bash
HERE=$(cd "$(dirname "$0")" && pwd)
# usage: allseeds.sh <tier> <seed>...  -- runs every registered check at the given seeds, prints non-zero exits
TIER=$1; shift
# background snapshot runs (vp run --with-repo): test the snapshot of /repo, so that /repo stays free for other work
if [ -n "$VP_RUN_REPO" ]; then
  export VERIF_REPO="$VP_RUN_REPO"
  sed -i "s#path = \"/repo#path = \"$VP_RUN_REPO#" "$HERE"/../harness/*/Cargo.toml
fi
for s in "$@"; do
  for p in ${PROPS:-C01 C02 C03 C04 C05 C06 C07 C08 C09 C10 C11 C12 C13 C14 C15 C16 C17 C18 C19 C20}; do
    t0=$(date +%s)
    out=$(VERIF_SEED=$s "$HERE/../check" $p $TIER 2>/dev/null); rc=$?
    t1=$(date +%s)
    echo "seed=$s $p rc=$rc $((t1-t0))s $(echo "$out" | tail -1 | cut -c1-160)"
    if [ $rc -ne 0 ]; then echo "$out" | grep -E "^(VIOLATION|INCONCLUSIVE|  rule)" | head -8; fi
  done
done
