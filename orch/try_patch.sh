#!/bin/bash
HERE=$(cd "$(dirname "$0")" && pwd)
# usage: try_patch.sh [-R] <patch> <prop> [<prop>...]   -- applies the patch to /repo, runs the quick checks, undoes it.
REV=""
if [ "$1" = "-R" ]; then REV="-R"; shift; fi
PATCH="$1"; shift
export VERIF_EVIDENCE_DIR=/verif/work/campaign-evidence
cd /repo || exit 2
if ! git diff --quiet; then echo "repo dirty, refusing"; exit 2; fi
git apply $REV "$PATCH" || { echo "patch does not apply"; exit 2; }
for p in "$@"; do
  out=$("$HERE/../check" "$p" quick 2>/dev/null); rc=$?
  nv=$(echo "$out" | grep -c '^VIOLATION')
  echo "== $p rc=$rc violations=$nv"
  echo "$out" | grep -A1 '^VIOLATION' | head -6
  echo "$out" | grep -E '^(INCONCLUSIVE|KNOWN)' | head -3
done
git -C /repo checkout -- .
git -C /repo status --short | head -3
