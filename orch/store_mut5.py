#!/usr/bin/env python3
"""Store a confirmed round-5+ seeded change under seeded/<prop>-<next letter>/ .  usage: store_mut5.py <worktree> <outdir-of-variant> [origin text]"""
import json, os, shutil, string, sys
HERE = os.path.dirname(os.path.dirname(os.path.abspath(__file__)))
wt, d = sys.argv[1], sys.argv[2]
origin = sys.argv[3] if len(sys.argv) > 3 else "independent sub-agent, fifth round (given only the property text, the list of sites already used by earlier changes, and a scratch worktree; asked for a change at a new site that needs something specific to manifest)"
meta = json.load(open(f"{d}/meta.json"))
conf = json.load(open(f"{d}/confirm.json"))
assert conf.get("confirmed"), "not confirmed"
prop = meta["property"]
letter = next(l for l in string.ascii_lowercase if not os.path.exists(f"{HERE}/seeded/{prop}-{l}"))
sid = f"{prop}-{letter}"
dst = f"{HERE}/seeded/{sid}"
os.makedirs(dst)
shutil.copy(f"{d}/patch.diff", dst + "/patch.diff")
shutil.copy(f"{d}/demo.rs", dst + "/demo.rs")
meta.update({"id": sid, "agent_id": meta["id"], "origin": origin,
             "confirmed_by_me": {"scratch_worktree": wt + " (removed)", "suite_with_change": conf["suite_with_change"], "suite_ok": conf["suite_ok"],
                                 "demo_with_change_rc": conf["demo_with_change_rc"], "demo_without_change_rc": conf["demo_without_change_rc"],
                                 "demo_cmd_used": conf["demo_cmd_used"], "confirmed": True}})
json.dump(meta, open(dst + "/meta.json", "w"), indent=1)
print(sid)
