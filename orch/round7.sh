#!/bin/bash
# usage: round7.sh <group> ...   -- confirm and store the variants a/b of a round-7 group
HERE=$(cd "$(dirname "$0")" && pwd)
for g in "$@"; do
  for v in a b; do
    d=/tmp/mut${R:-7}-out/$g/$v
    [ -f $d/meta.json ] || { echo "$g-$v: no meta.json"; continue; }
    [ -f $d/stored ] && { echo "$g-$v: already stored as $(cat $d/stored)"; continue; }
    python3 $HERE/confirm_mut5.py /tmp/mut${R:-7}-$g $d | cut -c1-400
    if python3 -c "import json,sys; sys.exit(0 if json.load(open('$d/confirm.json')).get('confirmed') else 1)"; then
      python3 $HERE/store_mut5.py /tmp/mut${R:-7}-$g $d "independent sub-agent, ${ORIGIN:-seventh round (given only the texts of two properties, the list of sites already used, and a scratch worktree; theme: a plausible maintainer commit - optimisation, refactor, small feature - that is subtly wrong and needs something specific to manifest)}" > $d/stored && echo "$g-$v stored as $(cat $d/stored)"
    fi
  done
done
