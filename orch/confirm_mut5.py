#!/usr/bin/env python3
"""Confirm a round-5+ seeded change in its scratch worktree: suite passes with it, demo fails with it, demo passes without it.
usage: confirm_mut5.py <worktree> <outdir-of-variant>"""
import json, os, re, subprocess, sys
wt, d = sys.argv[1], sys.argv[2]
meta = json.load(open(f"{d}/meta.json"))
demo_rel = meta["demo_path_in_repo"]
demo_cmd = meta["demo_cmd"]
m = re.search(r"(cargo (?:\+\w+ )?(?:test|nextest run|miri)[^#(\n]*)", demo_cmd)
demo_cmd = m.group(1).strip() if m else demo_cmd
env = dict(os.environ, CARGO_NET_OFFLINE="true", RUST_BACKTRACE="0")
def sh(c, t=3000):
    p = subprocess.run(c, shell=True, cwd=wt, env=env, stdout=subprocess.PIPE, stderr=subprocess.STDOUT, text=True, timeout=t)
    return p.returncode, p.stdout
sh("git checkout -- . && git clean -fdq -e target")
rc, out = sh(f"git apply {d}/patch.diff")
res = {"id": meta["id"], "patch_applies": rc == 0}
if rc == 0:
    rc, out = sh("cargo nextest run --workspace --no-fail-fast --offline --test-threads 8 2>&1 | tail -5")
    res["suite_with_change"] = [l.strip() for l in out.splitlines() if "Summary" in l or "passed" in l][-1:]
    res["suite_ok"] = "163 passed" in out and "failed" not in out.split("Summary")[-1]
    os.makedirs(os.path.dirname(os.path.join(wt, demo_rel)), exist_ok=True)
    sh(f"cp {d}/demo.rs {demo_rel}")
    rc1, out1 = sh(demo_cmd + " 2>&1 | tail -30")
    rc1, _ = sh(demo_cmd + " >/dev/null 2>&1")
    res["demo_with_change_rc"] = rc1
    res["demo_with_change_tail"] = out1[-600:]
    sh(f"git apply -R {d}/patch.diff")
    rc2, out2 = sh(demo_cmd + " >/dev/null 2>&1")
    res["demo_without_change_rc"] = rc2
    res["confirmed"] = bool(res["suite_ok"] and rc1 != 0 and rc2 == 0)
res["demo_cmd_used"] = demo_cmd
sh("git checkout -- . && git clean -fdq -e target")
json.dump(res, open(f"{d}/confirm.json", "w"), indent=1)
print(json.dumps({k: res[k] for k in res if k != "demo_with_change_tail"}))
