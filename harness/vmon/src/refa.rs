//! Reference oracle: one independent automaton per pattern, built from the pattern *text*
//! with regex-syntax + regex-automata trusted as the specification. Literal tokens are
//! hand-built byte-string automata (never sent through a regex parser).
//!
//! Semantics: a component state reached after consuming unit u_j (byte j or end-of-input)
//! *reports* a match ending immediately before u_j.

use regex_automata::dfa::{dense, Automaton, StartKind};
use regex_automata::nfa::thompson;
use regex_automata::util::primitives::StateID;
use regex_automata::util::start::Config as StartConfig;
use regex_automata::{Anchored, MatchKind};
use regex_syntax::hir::{Class, ClassBytes, ClassBytesRange, ClassUnicode, ClassUnicodeRange, Hir};

use crate::spec::{Def, Lit, PatKind};

pub type CState = u32;
pub const DEAD: CState = u32::MAX;

/// Unit index used for end-of-input in transition tables.
pub const EOI: usize = 256;

/// One reference component: a complete deterministic automaton over 256 bytes + EOI,
/// stored as an explicit table over its *reachable* states.
#[derive(Clone)]
pub struct Comp {
    /// trans[s*257 + unit] -> state or DEAD
    pub trans: Vec<CState>,
    /// reports[s]: match ends immediately before the unit just consumed
    pub reports: Vec<bool>,
    /// can_report_plus[s]: some non-empty unit sequence from s reaches a reporting state
    pub crp: Vec<bool>,
    pub start: CState,
    /// shortest number of units (bytes, then the revealing unit) from start to a reporting state
    pub describe: String,
}

impl Comp {
    #[inline]
    pub fn next(&self, s: CState, unit: usize) -> CState {
        if s == DEAD {
            DEAD
        } else {
            self.trans[s as usize * 257 + unit]
        }
    }
    #[inline]
    pub fn reports(&self, s: CState) -> bool {
        s != DEAD && self.reports[s as usize]
    }
    #[inline]
    pub fn crp(&self, s: CState) -> bool {
        s != DEAD && self.crp[s as usize]
    }
    pub fn nstates(&self) -> usize {
        self.reports.len()
    }

    fn finish(trans: Vec<CState>, reports: Vec<bool>, start: CState, describe: String) -> Comp {
        let n = reports.len();
        // can-report+ : least fixpoint over reverse edges
        let mut crp = vec![false; n];
        let mut rev: Vec<Vec<u32>> = vec![vec![]; n];
        for s in 0..n {
            for u in 0..257 {
                let t = trans[s * 257 + u];
                if t != DEAD {
                    rev[t as usize].push(s as u32);
                }
            }
        }
        let mut stack: Vec<u32> = vec![];
        for t in 0..n {
            if reports[t] {
                for &s in &rev[t] {
                    if !crp[s as usize] {
                        crp[s as usize] = true;
                        stack.push(s);
                    }
                }
            }
        }
        while let Some(t) = stack.pop() {
            for &s in &rev[t as usize] {
                if !crp[s as usize] {
                    crp[s as usize] = true;
                    stack.push(s);
                }
            }
        }
        Comp { trans, reports, crp, start, describe }
    }

    /// Hand-built automaton for the exact byte string `w` (non-empty or empty).
    pub fn literal(w: &[u8]) -> Comp {
        // states 0..=len : bytes matched; len+1 : REPORT
        let n = w.len() + 2;
        let rep = (w.len() + 1) as CState;
        let mut trans = vec![DEAD; n * 257];
        for k in 0..w.len() {
            trans[k * 257 + w[k] as usize] = (k + 1) as CState;
        }
        for u in 0..257 {
            trans[w.len() * 257 + u] = rep;
        }
        let mut reports = vec![false; n];
        reports[w.len() + 1] = true;
        Comp::finish(trans, reports, 0, format!("literal {:?}", String::from_utf8_lossy(w)))
    }

    /// From a regex-automata dense DFA (single pattern, anchored, MatchKind::All).
    pub fn from_dfa(dfa: &dense::DFA<Vec<u32>>, describe: String) -> Result<Comp, String> {
        let start = dfa
            .start_state(&StartConfig::new().anchored(Anchored::Yes))
            .map_err(|e| format!("no start state: {e}"))?;
        // universal start required for position independence; if look-behind at the start makes
        // the start state depend on the previous byte, the pattern is a must-reject candidate.
        let universal = dfa.universal_start_state(Anchored::Yes);
        if universal.is_none() {
            return Err("NO_UNIVERSAL_START".to_string());
        }
        let start = universal.unwrap_or(start);
        let mut ids: std::collections::HashMap<StateID, CState> = std::collections::HashMap::new();
        let mut order: Vec<StateID> = vec![];
        let mut get = |sid: StateID, order: &mut Vec<StateID>| -> CState {
            if dfa.is_dead_state(sid) {
                return DEAD;
            }
            *ids.entry(sid).or_insert_with(|| {
                order.push(sid);
                (order.len() - 1) as CState
            })
        };
        let s0 = get(start, &mut order);
        let mut trans: Vec<CState> = vec![];
        let mut reports: Vec<bool> = vec![];
        let mut i = 0;
        while i < order.len() {
            let sid = order[i];
            i += 1;
            reports.push(dfa.is_match_state(sid));
            for b in 0..=255u8 {
                let t = dfa.next_state(sid, b);
                let c = get(t, &mut order);
                trans.push(c);
            }
            let t = dfa.next_eoi_state(sid);
            let c = get(t, &mut order);
            trans.push(c);
            if order.len() > 400_000 {
                return Err("reference automaton too large".into());
            }
        }
        Ok(Comp::finish(trans, reports, s0, describe))
    }

    pub fn from_hir(hir: &Hir, describe: String) -> Result<Comp, String> {
        let nfa = thompson::Compiler::new()
            .configure(thompson::Config::new().utf8(false).shrink(false))
            .build_from_hir(hir)
            .map_err(|e| format!("nfa: {e}"))?;
        let dfa = dense::Builder::new()
            .configure(
                dense::Config::new()
                    .accelerate(false)
                    .byte_classes(true)
                    .minimize(false)
                    .match_kind(MatchKind::All)
                    .start_kind(StartKind::Anchored)
                    .dfa_size_limit(Some(64 << 20))
                    .determinize_size_limit(Some(64 << 20)),
            )
            .build_from_nfa(&nfa)
            .map_err(|e| format!("dfa: {e}"))?;
        Comp::from_dfa(&dfa, describe)
    }

    /// From regex text, the way the property states it ("the regex crate for the same pattern").
    pub fn from_regex(pattern: &str, unicode: bool, ignore_case: bool) -> Result<Comp, String> {
        let hir = parse_hir(pattern, unicode, ignore_case)?;
        Comp::from_hir(&hir, format!("regex {:?} u={} i={}", pattern, unicode, ignore_case))
    }

    /// Case-insensitive literal built per character from the simple case folding tables
    /// (str literal) or ASCII folding (byte-string literal). No textual escaping involved.
    pub fn literal_icase(lit: &Lit) -> Result<Comp, String> {
        let mut parts: Vec<Hir> = vec![];
        if lit.bytes {
            for &b in &lit.data {
                let mut cls = ClassBytes::new([ClassBytesRange::new(b, b)]);
                cls.case_fold_simple();
                parts.push(Hir::class(Class::Bytes(cls)));
            }
        } else {
            let text = std::str::from_utf8(&lit.data).map_err(|e| e.to_string())?;
            for ch in text.chars() {
                let mut cls = ClassUnicode::new([ClassUnicodeRange::new(ch, ch)]);
                cls.try_case_fold_simple().map_err(|e| e.to_string())?;
                parts.push(Hir::class(Class::Unicode(cls)));
            }
        }
        let hir = Hir::concat(parts);
        Comp::from_hir(&hir, format!("icase literal {:?}", String::from_utf8_lossy(&lit.data)))
    }

    /// Shortest path (in units) from the start to a reporting state, as the list of units.
    pub fn shortest_report_path(&self) -> Option<Vec<usize>> {
        self.shortest_path_from(self.start, |c, s| c.reports[s as usize])
    }

    pub fn shortest_path_from(&self, from: CState, goal: impl Fn(&Comp, CState) -> bool) -> Option<Vec<usize>> {
        if from == DEAD {
            return None;
        }
        let n = self.nstates();
        let mut prev: Vec<Option<(u32, u16)>> = vec![None; n];
        let mut seen = vec![false; n];
        let mut queue = std::collections::VecDeque::new();
        seen[from as usize] = true;
        queue.push_back(from);
        if goal(self, from) {
            return Some(vec![]);
        }
        while let Some(s) = queue.pop_front() {
            for u in 0..257 {
                let t = self.trans[s as usize * 257 + u];
                if t == DEAD || seen[t as usize] {
                    continue;
                }
                seen[t as usize] = true;
                prev[t as usize] = Some((s, u as u16));
                if goal(self, t) {
                    let mut path = vec![];
                    let mut cur = t;
                    while cur != from {
                        let (p, u) = prev[cur as usize].unwrap();
                        path.push(u as usize);
                        cur = p;
                    }
                    path.reverse();
                    return Some(path);
                }
                queue.push_back(t);
            }
        }
        None
    }

    /// Minimal number of *characters* (non-continuation bytes) on any byte path from the start
    /// to a state from which a report is revealed by the next unit (0-1 BFS).
    pub fn min_chars_to_match(&self) -> Option<usize> {
        let n = self.nstates();
        let mut dist = vec![usize::MAX; n];
        let mut dq = std::collections::VecDeque::new();
        dist[self.start as usize] = 0;
        dq.push_back(self.start);
        let mut best: Option<usize> = None;
        while let Some(s) = dq.pop_front() {
            let d = dist[s as usize];
            for u in 0..257 {
                let t = self.trans[s as usize * 257 + u];
                if t == DEAD {
                    continue;
                }
                if self.reports[t as usize] {
                    // the unit u only reveals the match; the match itself took `d` chars
                    best = Some(best.map_or(d, |b: usize| b.min(d)));
                }
                if u == EOI {
                    continue;
                }
                let w = if (u as u8 & 0xC0) == 0x80 { 0 } else { 1 };
                if d + w < dist[t as usize] {
                    dist[t as usize] = d + w;
                    if w == 0 {
                        dq.push_front(t);
                    } else {
                        dq.push_back(t);
                    }
                }
            }
        }
        best
    }

    /// Minimal number of bytes of any match.
    pub fn min_bytes_to_match(&self) -> Option<usize> {
        self.shortest_report_path().map(|p| p.len().saturating_sub(1))
    }
}

pub fn parse_hir(pattern: &str, unicode: bool, ignore_case: bool) -> Result<Hir, String> {
    regex_syntax::ParserBuilder::new()
        .utf8(false)
        .unicode(unicode)
        .case_insensitive(ignore_case)
        .build()
        .parse(pattern)
        .map_err(|e| format!("{e}"))
}

/// Text of a literal when it is used as a *regex source* (str: as is; byte string: ASCII as is,
/// bytes >= 0x80 as `\xNN`).
pub fn lit_regex_text(lit: &Lit) -> String {
    if !lit.bytes {
        String::from_utf8(lit.data.clone()).expect("utf8")
    } else {
        let mut s = String::new();
        for &b in &lit.data {
            if b < 0x80 {
                s.push(b as char);
            } else {
                s.push_str(&format!("\\x{:02X}", b));
            }
        }
        s
    }
}

/// My own inliner for `(?&name)` references (C11 oracle): each reference is replaced by a
/// non-capturing group with the subpattern's own unicode flag; subpatterns may reference earlier ones.
/// Returns Err(name) for an undefined (or forward) reference.
pub fn inline_subpatterns(pattern: &str, subs: &[(String, String)]) -> Result<String, String> {
    let bytes = pattern.as_bytes();
    let mut out = String::new();
    let mut i = 0;
    while i < bytes.len() {
        if bytes[i..].starts_with(b"(?&") {
            let mut j = i + 3;
            while j < bytes.len() && (bytes[j].is_ascii_alphanumeric() || bytes[j] == b'_') {
                j += 1;
            }
            if j > i + 3 && j < bytes.len() && bytes[j] == b')' {
                let name = &pattern[i + 3..j];
                match subs.iter().rev().find(|(n, _)| n == name) {
                    Some((_, text)) => out.push_str(text),
                    None => return Err(name.to_string()),
                }
                i = j + 1;
                continue;
            }
        }
        // copy one char
        let ch_len = utf8_len(bytes[i]);
        out.push_str(&pattern[i..i + ch_len]);
        i += ch_len;
    }
    Ok(out)
}

fn utf8_len(b: u8) -> usize {
    match b {
        0x00..=0x7F => 1,
        0xC0..=0xDF => 2,
        0xE0..=0xEF => 3,
        _ => 4,
    }
}

/// Resolved subpattern texts `(?u:src)` / `(?-u:src)` with earlier references inlined.
pub fn resolve_subpatterns(def: &Def) -> Result<Vec<(String, String)>, String> {
    let mut resolved: Vec<(String, String)> = vec![];
    for (name, lit) in &def.subpats {
        let flags = if lit.bytes { "-u" } else { "u" };
        let raw = format!("(?{}:{})", flags, lit_regex_text(lit));
        let text = inline_subpatterns(&raw, &resolved)?;
        resolved.push((name.clone(), text));
    }
    Ok(resolved)
}

/// Why a reference could not be built.
#[derive(Debug, Clone)]
pub enum RefError {
    /// pattern `leaf` does not parse / compile as a regex (expected: logos rejects too)
    Syntax(usize, String),
    UndefinedSubpattern(usize, String),
    NoUniversalStart(usize),
    TooLarge(usize),
}

/// The reference for a whole definition: one component per leaf (logos leaf order).
pub struct Reference {
    pub comps: Vec<Comp>,
    pub utf8: bool,
}

impl Reference {
    pub fn build(def: &Def) -> Result<Reference, RefError> {
        let subs = resolve_subpatterns(def).map_err(|n| RefError::UndefinedSubpattern(usize::MAX, n))?;
        let mut comps = vec![];
        for (leaf, p) in def.pats.iter().enumerate() {
            let comp = match p.kind {
                PatKind::Token => {
                    if p.ignore_case {
                        Comp::literal_icase(&p.lit).map_err(|e| RefError::Syntax(leaf, e))?
                    } else {
                        Comp::literal(&p.lit.data)
                    }
                }
                PatKind::Regex | PatKind::Skip => {
                    let text = lit_regex_text(&p.lit);
                    let text = inline_subpatterns(&text, &subs).map_err(|n| RefError::UndefinedSubpattern(leaf, n))?;
                    match Comp::from_regex(&text, !p.lit.bytes, p.ignore_case) {
                        Ok(c) => c,
                        Err(e) if e == "NO_UNIVERSAL_START" => return Err(RefError::NoUniversalStart(leaf)),
                        Err(e) if e.contains("too large") || e.contains("size limit") => return Err(RefError::TooLarge(leaf)),
                        Err(e) => return Err(RefError::Syntax(leaf, e)),
                    }
                }
            };
            comps.push(comp);
        }
        Ok(Reference { comps, utf8: def.utf8 })
    }

    pub fn start(&self) -> Vec<CState> {
        self.comps.iter().map(|c| c.start).collect()
    }

    #[inline]
    pub fn step(&self, r: &[CState], unit: usize, out: &mut Vec<CState>) {
        out.clear();
        for (c, &s) in self.comps.iter().zip(r) {
            out.push(c.next(s, unit));
        }
    }

    /// Leaves reporting in tuple `r`.
    pub fn reporting(&self, r: &[CState]) -> Vec<usize> {
        (0..r.len()).filter(|&i| self.comps[i].reports(r[i])).collect()
    }

    /// Winner among reporting leaves by the given priorities. Err(group) on a tie at the top.
    pub fn winner(&self, r: &[CState], prio: &[usize]) -> Result<Option<usize>, Vec<usize>> {
        let rep = self.reporting(r);
        if rep.is_empty() {
            return Ok(None);
        }
        let top = rep.iter().map(|&i| prio[i]).max().unwrap();
        let group: Vec<usize> = rep.into_iter().filter(|&i| prio[i] == top).collect();
        if group.len() == 1 {
            Ok(Some(group[0]))
        } else {
            Err(group)
        }
    }

    pub fn crp(&self, r: &[CState]) -> bool {
        (0..r.len()).any(|i| self.comps[i].crp(r[i]))
    }

    pub fn any_reports(&self, r: &[CState]) -> bool {
        (0..r.len()).any(|i| self.comps[i].reports(r[i]))
    }

    /// One reference match attempt at position `p` of `src`.
    pub fn attempt(&self, src: &[u8], p: usize, prio: &[usize]) -> Attempt {
        let mut r = self.start();
        let mut tmp = Vec::with_capacity(r.len());
        let mut best: Option<(usize, Vec<usize>)> = None; // (end, reporting leaves)
        let fatal; // j*
        let mut j = p;
        loop {
            let unit = if j < src.len() { src[j] as usize } else { EOI };
            self.step(&r, unit, &mut tmp);
            std::mem::swap(&mut r, &mut tmp);
            let rep = self.reporting(&r);
            if !rep.is_empty() {
                best = Some((j, rep));
            }
            if !self.crp(&r) {
                fatal = j;
                break;
            }
            if unit == EOI {
                fatal = src.len();
                break;
            }
            j += 1;
        }
        match best {
            Some((end, rep)) => {
                let top = rep.iter().map(|&i| prio[i]).max().unwrap();
                let group: Vec<usize> = rep.into_iter().filter(|&i| prio[i] == top).collect();
                Attempt::Match { end, leaves: group, examined: fatal }
            }
            None => {
                let mut end = fatal.max(p + 1);
                if self.utf8 {
                    end = crate::utf8::round_up(src, end);
                }
                Attempt::Error { end, fatal }
            }
        }
    }
}

#[derive(Debug, Clone, PartialEq, Eq)]
pub enum Attempt {
    /// longest match ends at `end`; `leaves` = top-priority leaves reporting that end (len 1 unless ambiguous)
    Match { end: usize, leaves: Vec<usize>, examined: usize },
    /// no match; error span ends at `end`
    Error { end: usize, fatal: usize },
}
