//! Tiny UTF-8 well-formedness automaton (Unicode table 3-7) used to restrict
//! explorations in str mode to prefixes of valid UTF-8.

pub const U_START: u8 = 0;
pub const U_ERR: u8 = 255;

/// Step the automaton. State 0 = on a char boundary.
#[inline]
pub fn step(state: u8, b: u8) -> u8 {
    match state {
        0 => match b {
            0x00..=0x7F => 0,
            0xC2..=0xDF => 1,
            0xE0 => 3,
            0xE1..=0xEC | 0xEE..=0xEF => 2,
            0xED => 4,
            0xF0 => 6,
            0xF1..=0xF3 => 5,
            0xF4 => 7,
            _ => U_ERR,
        },
        1 => if (0x80..=0xBF).contains(&b) { 0 } else { U_ERR },
        2 => if (0x80..=0xBF).contains(&b) { 1 } else { U_ERR },
        3 => if (0xA0..=0xBF).contains(&b) { 1 } else { U_ERR },
        4 => if (0x80..=0x9F).contains(&b) { 1 } else { U_ERR },
        5 => if (0x80..=0xBF).contains(&b) { 2 } else { U_ERR },
        6 => if (0x90..=0xBF).contains(&b) { 2 } else { U_ERR },
        7 => if (0x80..=0x8F).contains(&b) { 2 } else { U_ERR },
        _ => U_ERR,
    }
}

/// Some byte sequence that brings `state` back to a boundary (for completing candidates).
pub fn completion(state: u8) -> &'static [u8] {
    match state {
        0 => b"",
        1 => b"\x80",
        2 => b"\x80\x80",
        3 => b"\xA0\x80",
        4 => b"\x80\x80",
        5 => b"\x80\x80\x80",
        6 => b"\x90\x80\x80",
        7 => b"\x80\x80\x80",
        _ => b"",
    }
}

pub fn state_after(bytes: &[u8]) -> u8 {
    let mut s = U_START;
    for &b in bytes {
        s = step(s, b);
        if s == U_ERR {
            return U_ERR;
        }
    }
    s
}

pub fn is_boundary(src: &[u8], idx: usize) -> bool {
    idx == 0 || idx == src.len() || (idx < src.len() && (src[idx] & 0xC0) != 0x80)
}

/// Round `idx` up to the next char boundary of valid UTF-8 `src` (idx <= len).
pub fn round_up(src: &[u8], mut idx: usize) -> usize {
    while idx < src.len() && (src[idx] & 0xC0) == 0x80 {
        idx += 1;
    }
    idx
}

#[cfg(test)]
mod tests {
    use super::*;
    #[test]
    fn agrees_with_std() {
        // all 1-3 byte sequences over a small hostile byte set + exhaustive 2-byte
        let interesting: Vec<u8> = vec![
            0x00, 0x41, 0x7F, 0x80, 0x8F, 0x90, 0x9F, 0xA0, 0xBF, 0xC0, 0xC1, 0xC2, 0xDF, 0xE0,
            0xE1, 0xEC, 0xED, 0xEE, 0xEF, 0xF0, 0xF1, 0xF3, 0xF4, 0xF5, 0xFF,
        ];
        let mut seqs: Vec<Vec<u8>> = vec![vec![]];
        for len in 1..=4 {
            let mut next = vec![];
            for s in seqs.iter().filter(|s| s.len() == len - 1) {
                for &b in &interesting {
                    let mut t = s.clone();
                    t.push(b);
                    next.push(t);
                }
            }
            seqs.extend(next);
        }
        for s in &seqs {
            let ok = std::str::from_utf8(s).is_ok();
            assert_eq!(state_after(s) == U_START, ok, "{:x?}", s);
        }
        for a in 0..=255u8 {
            for b in 0..=255u8 {
                let s = [a, b];
                assert_eq!(state_after(&s) == U_START, std::str::from_utf8(&s).is_ok());
            }
        }
    }
}
