//! Definition families (DESIGN.md 4.1). Every generator is a pure function of the Rng.

use crate::regen::*;
use crate::rng::Rng;
use crate::spec::*;

fn assign_priorities(rng: &mut Rng, def: &mut Def) {
    // Random regex soups overlap a lot; give distinct explicit priorities to most patterns in
    // most definitions so that a useful share is accepted, keep defaults in the others.
    let mode = rng.below(10);
    let n = def.pats.len();
    let mut prios: Vec<usize> = (1..=n).map(|i| i * 3 + rng.below(2)).collect();
    rng.shuffle(&mut prios);
    for (i, p) in def.pats.iter_mut().enumerate() {
        let explicit = match mode {
            0..=5 => true,
            6 | 7 => rng.chance(1, 2),
            _ => false,
        };
        if explicit {
            p.priority = Some(prios[i]);
        }
    }
}

fn maybe_slice_variants(rng: &mut Rng, def: &mut Def) {
    for (vi, v) in def.variants.iter_mut().enumerate() {
        let has_cb = def.pats.iter().any(|p| p.kind != PatKind::Skip && p.variant == vi && p.cb.is_some());
        if !has_cb && *v == VarKind::Unit && rng.chance(1, 6) {
            *v = VarKind::Slice;
        }
    }
}

/// F1 regex soup
pub fn f1_soup(rng: &mut Rng, name: &str) -> Def {
    let bytes_mode = rng.chance(1, 4);
    let mut def = Def::new(name, "F1", !bytes_mode);
    let cfg = ReCfg {
        unicode_chars: rng.chance(1, 2),
        big_classes: rng.chance(1, 12),
        bytes_mode: bytes_mode && rng.chance(1, 2),
        looks: rng.chance(1, 6),
        flags: rng.chance(1, 3),
        max_depth: rng.range(1, 3) as u32,
        lazy: true,
        greedy_dot: false,
    };
    let n = rng.range(1, 5);
    for _ in 0..n {
        if rng.chance(1, 3) {
            let len = rng.range(1, 4);
            let text: String = (0..len).map(|_| rand_char(rng, &cfg)).collect();
            let mut p = Pat::token(&text, 0);
            if rng.chance(1, 8) {
                p.ignore_case = true;
            }
            def.push(p);
        } else {
            let re = rand_re(rng, &cfg, 0);
            let mut p = Pat::regex(&re.render(), 0);
            if rng.chance(1, 12) {
                p.ignore_case = true;
            }
            def.push(p);
        }
    }
    let nskip = [0, 0, 1, 1, 2][rng.below(5)];
    for _ in 0..nskip {
        let text = if rng.chance(1, 2) {
            rng.pick_str(&[" ", "[ \\n]+", "\\x20+", "[ \\t\\n]", "_+", "-", "//[a-c]*", "\\s+", "\\s", "[^a-zA-Z0-9]", "\\p{Zs}+", "#.", "\\W", "#[ -~]*", ";[a-z ;]*"]).to_string()
        } else {
            rand_re(rng, &cfg, 1).render()
        };
        def.push(Pat::skip(&text));
    }
    assign_priorities(rng, &mut def);
    maybe_slice_variants(rng, &mut def);
    def.normalize();
    def
}

/// F1x exotic regex syntax: spellings the soup never produces (POSIX / set-operation / nested classes,
/// hex and Unicode escapes, named groups, flag switches in mid-pattern, verbose mode, CRLF mode,
/// swap-greed, zero and exact counts, empty alternatives), combined in small definitions.
pub fn f1x_exotic(rng: &mut Rng, name: &str) -> Def {
    let bytes_mode = rng.chance(1, 4);
    let mut def = Def::new(name, "F1x", !bytes_mode);
    const CLASSES: &[&str] = &[
        "[[:alpha:]]", "[[:^digit:]&&[a-z0-9]]", "[a-z&&[^aeiou]]", "[a-z--m-p]", "[a-f~~d-k]", "[\\d\\s]", "[[:punct:]]", "[[:xdigit:]]",
        "[\\p{Greek}--\\p{Lu}]", "\\pN", "\\p{sc=Greek}", "\\p{Script=Cyrillic}", "[[a-c][x-z]]", "[^\\p{L}\\p{N}\\s]", "[\\x41-\\x5A]",
        "[\\u00E0-\\u00FF]", "[a-c[:digit:]]", "[\\x{1F600}-\\x{1F64F}]", "[^[:^alpha:]]", "[\\w--\\d]", "[\\w&&[^_]]", "[-a]", "[a-]", "[]a]", "[^]a]",
        "[\\^a]", "[a\\-c]", "[&&a]", "[\\p{Lu}&&\\p{Greek}]", "[\\P{L}&&\\p{ASCII}]", "[\\s--\\n]", "\\p{Nd}", "[\\pL&&[^\\p{Ll}]]",
        "[\\x00-\\x08\\x0E-\\x1F\\x7F]", "[!#%\\x7F]", "[\\x7E\\x7F]", "[^\\x00-\\x7E]", "[[:cntrl:]]", "[^\u{e9}\u{20ac} ]", "[^\\p{Greek}a]",
    ];
    const LITS: &[&str] = &[
        "\\x41", "\\x{41}", "\\u0041", "\\u{e9}", "\\U0001F600", "\\x{1F600}", "\\a", "\\f", "\\v", "\\t", "\\x7F", "\\x00", "\\u00DF", "\\u{212A}",
        "\\/", "\\%", "\\<", "\\>", "\\ ", "\\-", "\\#", "\\&", "\\~", "é", "ſ", "\\x{10FFFF}", "\\u{7FF}", "\\u{800}", "\\u{FFFF}", "\\u{10000}",
    ];
    const BYTE_ATOMS: &[&str] = &[
        "(?-u:\\xFF)", "(?-u:[\\x80-\\xBF])", "(?-u:[^\\x00-\\x7F])", "(?-u:\\xC3\\xA9)", "(?-u:[[:^ascii:]])", "(?-u:\\W)", "(?-u:[\\xF0-\\xF4])",
        "(?-u:\\xE2\\x82)", "(?i-u:k)", "(?-u:\\x00)", "(?-u:[\\x7F-\\x80])", "(?-u:\\D)",
    ];
    const LOOKS: &[&str] = &["(?Rm:$)", "(?R:$)", "(?-u:\\b{end})", "(?-u:\\b{start})", "(?-u:\\b{start-half})", "(?-u:\\b{end-half})", "\\z", "$", "(?m:$)", "(?-u:\\B)", "(?-u:\\b)"];
    let atom = |rng: &mut Rng| -> String {
        let roll = rng.below(100);
        if bytes_mode && roll < 25 {
            rng.pick_str(BYTE_ATOMS).to_string()
        } else if roll < 55 {
            rng.pick_str(CLASSES).to_string()
        } else if roll < 80 {
            rng.pick_str(LITS).to_string()
        } else {
            let c = *rng.pick(ALPHA_ASCII);
            let mut t = String::new();
            escape_char(c, &mut t);
            t
        }
    };
    let seq = |rng: &mut Rng, n: usize| -> String { (0..n).map(|_| atom(rng)).collect::<Vec<_>>().concat() };
    let npat = rng.range(1, 4);
    for _ in 0..npat {
        let a = atom(rng);
        let nb = rng.range(1, 2);
        let b = seq(rng, nb);
        let c = atom(rng);
        let text = match rng.below(26) {
            0 => format!("(?P<n>{a}){b}"),
            1 => format!("(?<n>{a}{b})"),
            2 => format!("{a}(?i){b}"),
            3 => format!("(?i){a}(?-i){b}"),
            4 => format!("(?i:{a})(?-i:{b})"),
            5 => format!("(?x: {a} {b} # tail\n {c} )"),
            6 => format!("(?x){a} {b}#c"),
            7 => format!("(?U:{a}+){b}"),
            8 => format!("(?U:{a}*?){b}"),
            9 => format!("{a}{{0}}{b}"),
            10 => format!("{a}{{0,0}}{b}{c}{{1}}"),
            11 => format!("({a}{{2}}){{2}}{b}"),
            12 => format!("{a}{{1,1}}{b}{{0,3}}{c}"),
            13 => format!("{a}{{3,}}"),
            14 => format!("{a}(|{b})"),
            15 => format!("(?:{a}|){b}"),
            16 => format!("{a}(?:){b}"),
            17 => format!("(){a}{b}"),
            18 => format!("{a}??{b}"),
            19 => format!("{a}{{2,3}}?{b}"),
            20 => {
                let l = rng.pick_str(LOOKS);
                format!("{a}{b}{l}")
            }
            21 => {
                let l = rng.pick_str(LOOKS);
                format!("{a}{l}{b}")
            }
            22 => format!("(?R:{a}\\r?\\n(?m:$))|{b}"),
            23 => format!("(?s:{a}.{b})"),
            24 => format!("{a}(?:{b}|{c})+"),
            _ => format!("{a}{b}|{c}{a}"),
        };
        let mut p = Pat::regex(&text, 0);
        if rng.chance(1, 10) {
            p.ignore_case = true;
        }
        def.push(p);
    }
    if rng.chance(1, 2) {
        let len = rng.range(1, 3);
        let text: String = (0..len).map(|_| *rng.pick(ALPHA_ASCII)).collect();
        def.push(Pat::token(&text, 0));
    }
    if rng.chance(1, 2) {
        def.push(Pat::skip(rng.pick_str(&["[[:space:]]+", "(?x: \\x20 | \\n )", "\\x20+", "[\\s--\\n]+", "\\p{Zs}", "(?:\\r?\\n)+", "[[:blank:]]"])));
    }
    assign_priorities(rng, &mut def);
    maybe_slice_variants(rng, &mut def);
    def.normalize();
    def
}

const KEYWORDS: &[&str] = &[
    "if", "in", "int", "into", "is", "impl", "else", "elif", "enum", "end", "for", "fn", "false", "final", "finally",
    "let", "loop", "match", "mod", "move", "mut", "pub", "ref", "return", "self", "Self", "static", "struct", "super",
    "trait", "true", "type", "unsafe", "use", "where", "while", "async", "await", "dyn", "do", "done", "+", "++", "+=",
    "-", "--", "-=", "->", "=", "==", "=>", "<", "<=", "<<", "<<=", ">", ">=", ">>", ">>=", "!", "!=", "&", "&&", "|", "||",
    "(", ")", "{", "}", "[", "]", ";", ":", "::", ",", ".", "..", "...", "..=",
];

/// F2 keyword lexers
pub fn f2_keywords(rng: &mut Rng, name: &str) -> Def {
    let bytes_mode = rng.chance(1, 5);
    let mut def = Def::new(name, "F2", !bytes_mode);
    let n = rng.range(5, 30);
    let mut chosen: Vec<&str> = vec![];
    while chosen.len() < n {
        let k = *rng.pick(KEYWORDS);
        if !chosen.contains(&k) {
            chosen.push(k);
        }
    }
    for k in &chosen {
        let mut p = Pat::token(k, 0);
        if rng.chance(1, 20) && k.chars().all(|c| c.is_ascii_alphabetic()) {
            p.ignore_case = true;
        }
        def.push(p);
    }
    if rng.chance(4, 5) {
        def.push(Pat::regex(rng.pick_str(&["[a-zA-Z_][a-zA-Z0-9_]*", "[a-z]+", "[a-zA-Z]+[0-9]*", "\\p{XID_Start}\\p{XID_Continue}*"]), 0));
    }
    if rng.chance(3, 5) {
        def.push(Pat::regex(rng.pick_str(&["[0-9]+", "0x[0-9a-fA-F]+|[0-9]+", "[0-9]+(\\.[0-9]+)?", "-?[0-9]+"]), 0));
    }
    if rng.chance(1, 2) {
        def.push(Pat::regex(rng.pick_str(&["\"([^\"\\\\]|\\\\.)*\"", "\"[^\"]*\"", "'[^']'"]), 0));
    }
    if rng.chance(1, 3) {
        def.push(Pat::regex("//[^\\n]*", 0).greedy(true));
    }
    def.push(Pat::skip(rng.pick_str(&["[ \\t\\n]+", " +", "[ \\n]"])));
    // ignore-case keywords overlap identifier regexes on equal priority rarely; leave to acceptance filter
    maybe_slice_variants(rng, &mut def);
    def.normalize();
    def
}

/// F3 Unicode ranges straddling encoding-length boundaries, negated classes, case folds
pub fn f3_unicode(rng: &mut Rng, name: &str) -> Def {
    let mut def = Def::new(name, "F3", rng.chance(4, 5));
    let edges: &[u32] = &[0x7F, 0x80, 0x7FF, 0x800, 0xD7FF, 0xE000, 0xFFFF, 0x10000, 0x10FFFF, 0x3B1, 0x3C9, 0x212A, 0x17F];
    let n = rng.range(1, 4);
    for _ in 0..n {
        let roll = rng.below(6);
        let text = match roll {
            0 | 1 => {
                let a = *rng.pick(edges);
                let lo = a.saturating_sub(rng.below(3) as u32);
                let hi = (a + rng.below(300) as u32).min(0x10FFFF);
                let (lo, hi) = (fix_cp(lo), fix_cp(hi.max(lo)));
                let (lo, hi) = if lo <= hi { (lo, hi) } else { (hi, lo) };
                let neg = if rng.chance(1, 4) { "^" } else { "" };
                let rep = rng.pick_str(&["", "+", "{2}", "{1,2}"]);
                format!("[{}\\u{{{:X}}}-\\u{{{:X}}}]{}", neg, lo, hi, rep)
            }
            2 => rng.pick_str(&["\\p{Greek}+", "[^\\x00-\\x7F]", "[^a-z]", "\\pL+", "[α-ω]+", "[à-ÿ]+x?", "\\p{Lu}\\p{Ll}*", "[^\\p{Greek}]"]).to_string(),
            3 => format!("(?i:{})", rng.pick_str(&["k", "s", "σ", "ß", "kelvin", "straße", "ΣΑΣ", "ſ", "é"])),
            4 => {
                let cfg = ReCfg { unicode_chars: true, ..ReCfg::basic() };
                rand_re(rng, &cfg, 1).render()
            }
            _ => {
                let len = rng.range(1, 3);
                let t: String = (0..len).map(|_| *rng.pick(ALPHA_UNI)).collect();
                let mut s = String::new();
                for c in t.chars() {
                    escape_char(c, &mut s);
                }
                s
            }
        };
        if roll == 5 && rng.chance(1, 2) {
            let len = rng.range(1, 3);
            let t: String = (0..len).map(|_| *rng.pick(ALPHA_UNI)).collect();
            let mut p = Pat::token(&t, 0);
            p.ignore_case = rng.chance(1, 3);
            def.push(p);
        } else {
            let mut p = Pat::regex(&text, 0);
            p.ignore_case = rng.chance(1, 8);
            def.push(p);
        }
    }
    if rng.chance(1, 2) {
        def.push(Pat::skip(rng.pick_str(&[" ", "\\s", "[ \\n]+", "\\p{Zs}+"])));
    }
    assign_priorities(rng, &mut def);
    maybe_slice_variants(rng, &mut def);
    def.normalize();
    def
}

fn fix_cp(c: u32) -> u32 {
    if (0xD800..=0xDFFF).contains(&c) {
        0xE000
    } else {
        c.min(0x10FFFF)
    }
}

/// F4 byte mode
pub fn f4_bytes(rng: &mut Rng, name: &str) -> Def {
    let mut def = Def::new(name, "F4", false);
    let cfg = ReCfg { bytes_mode: true, unicode_chars: rng.chance(1, 3), ..ReCfg::basic() };
    let n = rng.range(1, 4);
    for _ in 0..n {
        match rng.below(5) {
            0 => {
                let len = rng.range(1, 4);
                let data: Vec<u8> = (0..len).map(|_| if rng.chance(1, 2) { rng.byte() } else { *rng.pick(b"ab\x00\xff\x80.*") }).collect();
                let mut p = Pat::new(PatKind::Token, Lit::b(&data), 0);
                p.ignore_case = rng.chance(1, 5);
                def.push(p);
            }
            1 => {
                // byte-string regex: ASCII regex text plus raw high bytes
                let mut data: Vec<u8> = rand_re(rng, &ReCfg::basic(), 2).render().into_bytes();
                if rng.chance(1, 2) {
                    data.push(0x80 | (rng.byte() & 0x7f));
                }
                if rng.chance(1, 3) {
                    data.extend_from_slice(b"+");
                }
                def.push(Pat::new(PatKind::Regex, Lit::b(&data), 0));
            }
            2 if rng.chance(1, 5) => {
                // adjacent classes with one continuation: p[lo-k]s | p[k+1-hi]s, union touching 0x00 or 0xFF
                let k = *rng.pick(&[0x1fu8, 0x2f, 0x39, 0x7e, 0x7f, 0x80, 0xbf, 0xc1, 0xdf, 0xf4]);
                let (lo, hi) = if rng.chance(1, 2) { (0x00u8, k.saturating_add(rng.range(1, 40) as u8).max(k + 1)) } else { (k.saturating_sub(rng.range(1, 40) as u8), 0xffu8) };
                let pre = rng.pick_str(&["a", "#", ""]);
                let suf = rng.pick_str(&["b", "!", ""]);
                let text = format!("{pre}[\\x{lo:02x}-\\x{k:02x}]{suf}|{pre}[\\x{:02x}-\\x{hi:02x}]{suf}", k + 1);
                def.push(Pat::new(PatKind::Regex, Lit::b(text.as_bytes()), 0).prio(9));
            }
            2 if rng.chance(1, 4) => {
                // binary tags: single bytes around table-size boundaries, optionally behind a common prefix
                let pool = [0x00u8, 0x01, 0x3F, 0x40, 0x7E, 0x7F, 0x80, 0x81, 0xBF, 0xC0, 0xFE, 0xFF];
                let prefix: &[u8] = if rng.chance(1, 2) { b"" } else { b"t" };
                let k = rng.range(3, 6);
                let mut used: Vec<u8> = vec![];
                while used.len() < k {
                    let b = *rng.pick(&pool);
                    if !used.contains(&b) {
                        used.push(b);
                    }
                }
                for b in used {
                    let mut d = prefix.to_vec();
                    d.push(b);
                    def.push(Pat::new(PatKind::Token, Lit::b(&d), 0));
                }
            }
            2 if rng.chance(1, 3) => {
                // byte-string literals that are truncated / mixed UTF-8, next to class patterns of the same length
                let lit: &[u8] = *rng.pick(&[&b"\xE2\x82"[..], &b"\xF0\x9F\x98"[..], &b"\xC3\xA9\xFF"[..], &b"a\xE2\x82"[..], &b"\xC3\xA9"[..], &b"\xE2\x82\xE2\x82[\x80-\xBF]"[..], &b"\xFF\xFE"[..]]);
                def.push(Pat::new(PatKind::Regex, Lit::b(lit), 0));
                if rng.chance(2, 3) {
                    let cls: &[u8] = *rng.pick(&[&b"[\xE0-\xEF][\x80-\xBF]"[..], &b"[\xF0-\xF4][\x80-\xBF][\x80-\xBF]"[..], &b"[\xC0-\xDF][\x80-\xBF][\xF0-\xFF]"[..], &b"[a-z][\xE0-\xEF][\x80-\xBF]"[..], &b"[\x80-\xFF]+"[..]]);
                    def.push(Pat::new(PatKind::Regex, Lit::b(cls), 0));
                }
            }
            2 if rng.chance(1, 2) => {
                let a = *rng.pick(&['a', 'x', '0', '<']);
                let hole = rng.pick_str(&["x", "\\x00", "\\xFF", "\\n", "a", "\\x80", "ac", "\\x00\\xFF"]);
                let tail = rng.pick_str(&["", "b", "z+", "\\xFF"]);
                def.push(Pat::regex(&format!("{a}(?s-u:[^{hole}]){tail}"), 0));
            }
            2 => {
                def.push(Pat::regex(rng.pick_str(&["(?-u:[\\x80-\\xBF])+", "(?-u:\\xFF\\xFE)", "(?-u:[^\\x00])", "\\xE2\\x82\\xAC", "(?-u:\\xE2\\x82)", "(?s-u:.)", "(?-u:[\\xC2-\\xDF])x", "(?-u:\\x00+)"]), 0));
            }
            _ => {
                def.push(Pat::regex(&rand_re(rng, &cfg, 0).render(), 0));
            }
        }
    }
    if rng.chance(1, 2) {
        def.push(Pat::skip(rng.pick_str(&[" ", "(?-u:\\x00)", "[ \\n]+", "\\s+", "#.", "[^a-z0-9]", "\\p{Zs}"])));
    }
    assign_priorities(rng, &mut def);
    maybe_slice_variants(rng, &mut def);
    def.normalize();
    def
}

/// F5 look-around
pub fn f5_look(rng: &mut Rng, name: &str) -> Def {
    let bytes_mode = rng.chance(1, 4);
    let mut def = Def::new(name, "F5", !bytes_mode);
    let n = rng.range(1, 4);
    let cfg = ReCfg { looks: true, unicode_chars: rng.chance(1, 4), max_depth: 2, ..ReCfg::basic() };
    if rng.chance(1, 6) {
        // every pattern has an empty language (an end assertion followed by more text): nothing can ever match
        def.family = "F5-unsat".into();
        for _ in 0..rng.range(1, 2) {
            let pre = rng.pick_str(&["[a-c]*", "a+", "(ab)*", "[x-z]*[0-9]?", "", "q"]);
            let mid = rng.pick_str(&["(x$y)+", "a$b", "\\zb", "(c\\z[a-z])+", "(?m:$)x", "z$[a-z]*.0"]);
            let post = rng.pick_str(&["", "c*", "[0-9]+"]);
            def.push(Pat::regex(&format!("{pre}{mid}{post}"), 0));
        }
        assign_priorities(rng, &mut def);
        def.normalize();
        return def;
    }
    if rng.chance(1, 12) {
        // a look-ahead inside a repetition that follows a complete match: base(sep look)* / base(sep look)+
        def.family = "F5-rep-look".into();
        let base = rng.pick_str(&["b", "#[a-z]*", "[0-9]+", "k"]);
        let (sep, look) = *rng.pick(&[("\\n", "(?m:$)"), ("-", "(?-u:\\B)"), (" ", "(?-u:\\B)"), ("\\n", "(?m:$)"), ("x", "(?-u:\\b{end-half})")]);
        let q = rng.pick_str(&["*", "+", "{1,3}", "{2,}"]);
        def.push(Pat::regex(&format!("{base}({sep}{look}){q}"), 0).prio(8));
        def.push(Pat::regex(&sep.replace("\\\\", "\\"), 0).prio(2));
        if rng.chance(1, 2) {
            def.push(Pat::regex("[a-z]", 0).prio(1));
        }
        def.normalize();
        return def;
    }
    if rng.chance(1, 12) {
        // a repetition whose repeated byte itself satisfies the trailing assertion (late accept + self loop)
        def.family = "F5-loop-late".into();
        let (body, look) = *rng.pick(&[("\\n", "(?m:$)"), ("x", "(?-u:\\B)"), ("[a-z]", "(?-u:\\B)"), ("[ \\n]", "(?m:$)"), ("-", "(?-u:\\B)")]);
        def.push(Pat::regex(&format!("{body}+{look}"), 0).prio(8));
        if rng.chance(1, 2) {
            def.push(Pat::regex(&format!("{body}+"), 0).prio(3));
        }
        def.push(Pat::regex(rng.pick_str(&["[0-9]", "a", "[A-Z]+"]), 0).prio(4));
        def.normalize();
        return def;
    }
    if rng.chance(1, 10) {
        // one pattern = a one-byte alternative | a longer alternative ending in an assertion; a weaker class for that byte
        def.family = "F5-alt-look".into();
        let one = rng.pick_str(&["x", ";", "q", "0"]);
        let word = rng.pick_str(&["ab", "end", "rs", "k+"]);
        let look = rng.pick_str(&["$", "\\z", "(?-u:\\b)", "(?m:$)"]);
        def.push(Pat::regex(&format!("{one}|{word}{look}"), 0).prio(6));
        def.push(Pat::regex(rng.pick_str(&["[a-z;]", "[a-z0-9;]", "[^ ]"]), 0).prio(1));
        if rng.chance(1, 2) {
            def.push(Pat::regex("[a-z]+", 0).prio(2));
        }
        def.normalize();
        return def;
    }
    if rng.chance(1, 8) {
        // a repetition directly followed by an end assertion, nothing unanchored beside it
        def.family = "F5-loop-eoi".into();
        let body = rng.pick_str(&["#", "[a-z]", "[0-9]", "(ab)", "[^ ]", "x"]);
        let look = rng.pick_str(&["$", "\\z", "(?m:$)"]);
        def.push(Pat::regex(&format!("{body}+{look}"), 0));
        def.push(Pat::token(rng.pick_str(&[",", ";", "=", "\n"]), 0));
        if rng.chance(1, 2) {
            def.push(Pat::regex(rng.pick_str(&["[A-Z]+", "==", "[ ]+"]), 0));
        }
        def.normalize();
        return def;
    }
    if rng.chance(1, 4) {
        // the same text with and without a trailing assertion; the anchored one has the higher priority
        def.family = "F5-shadow".into();
        let base = match rng.below(4) {
            0 => rng.pick_str(&["end", "if", "a", "ab", "x1", "é"]).to_string(),
            1 => rng.pick_str(&["[a-z]+", "a+", "[0-9]+", "(ab)+", "[a-c]x?"]).to_string(),
            _ => rand_re(rng, &ReCfg::basic(), 2).render(),
        };
        let look = rng.pick_str(&["$", "\\z", "(?-u:\\b)", "(?m:$)", "(?-u:\\b{end})", "(?-u:\\B)"]);
        let p1 = rng.range(1, 5);
        def.push(Pat::regex(&base, 0).prio(p1));
        if rng.chance(1, 3) {
            // the anchored pattern continues a little further than the plain one
            let more = rng.pick_str(&["b", "x", " if", "[0-9]", "-"]);
            def.push(Pat::regex(&format!("(?:{base}){more}{look}"), 0).prio(p1 + rng.range(1, 9)));
        } else {
            def.push(Pat::regex(&format!("(?:{base}){look}"), 0).prio(p1 + rng.range(1, 9)));
        }
        if rng.chance(1, 2) {
            // a sibling that shares the whole text and continues exactly where the assertion fails
            let cont = rng.pick_str(&["(?-u:\\w)+!", "[a-z0-9]+;", ".x", "[^ ]+\\.", "(?s-u:.)!"]);
            def.push(Pat::regex(&format!("(?:{base}){cont}"), 0).prio(p1 + 12));
        }
        if rng.chance(1, 2) {
            def.push(Pat::regex(rng.pick_str(&[";", "\\n", "[a-z]", "[a-zA-Z_][a-zA-Z0-9_]*", " "]), 0).prio(p1 + 20));
        }
        if rng.chance(1, 3) {
            def.push(Pat::skip(rng.pick_str(&[" ", "\\n", "[ \\n]+"])));
        }
        def.normalize();
        return def;
    }
    for _ in 0..n {
        let text = match rng.below(6) {
            0 => format!("{}{}", rand_re(rng, &ReCfg::basic(), 2).render(), rand_look(rng).render()),
            1 => format!("{}{}{}", rand_re(rng, &ReCfg::basic(), 2).render(), rand_look(rng).render(), rand_re(rng, &ReCfg::basic(), 2).render()),
            2 => rng.pick_str(&["a$", "[a-z]+(?-u:\\b)", "x(?-u:\\B)y", "ab\\z", "a(?m:$)", "[0-9]+(?-u:\\b{end})", "if(?-u:\\b)", "a+$|b", "(a|ab)(?-u:\\b)", "a(?-u:\\b)b?", "x?(?-u:\\B)ba"]).to_string(),
            3 => format!("{}{}", rng.pick_str(&["^", "(?m:^)", "(?-u:\\b)", "\\A", "(?-u:\\b{start})"]), rand_re(rng, &ReCfg::basic(), 2).render()),
            _ => rand_re(rng, &cfg, 0).render(),
        };
        def.push(Pat::regex(&text, 0));
    }
    if rng.chance(1, 2) {
        def.push(Pat::skip(rng.pick_str(&[" ", "[ \\n]+", "\\n"])));
    }
    assign_priorities(rng, &mut def);
    def.normalize();
    def
}

/// F6 loops
pub fn f6_loops(rng: &mut Rng, name: &str) -> Def {
    let bytes_mode = rng.chance(1, 4);
    let mut def = Def::new(name, "F6", !bytes_mode);
    if rng.chance(1, 6) {
        // every pattern starts with the same starred group: the automaton re-enters its start
        // state in the middle of a token
        def.family = "F6-rootloop".into();
        let star = rng.pick_str(&["(ab)*", "a*", "[a-c]*", "(x|yz)*", "(a|b)*", "[0-9]*", "(é)*", "(a|bc)*", "([0-9]|x[a-f])*", "(a|b|cd)*", "([a-c]|xyz)*"]);
        // tails that begin with a letter of the starred group put accepting states and wide forks (jump tables)
        // *on* the cycle through the start state
        let tails = ["c", "d", "xy", "[q-t]", "0", "zz?", "[k-m]+", "a", "ad", "ae", "af[0-9]", "ag+", "b!", "a$"];
        let n = rng.range(1, 5);
        let mut used: Vec<&str> = vec![];
        for _ in 0..n {
            let t = *rng.pick(&tails);
            if used.contains(&t) {
                continue;
            }
            used.push(t);
            def.push(Pat::regex(&format!("{star}{t}"), 0));
        }
        assign_priorities(rng, &mut def);
        def.normalize();
        return def;
    }
    let n = rng.range(1, 3);
    for _ in 0..n {
        let text = match rng.below(8) {
            0 => rng.pick_str(&["(ab)+", "(a+b)+", "(a|aa)+b", "(a*)*b", "(a|b)*abb", "(a{1,3}){2,}c", "a*b*c", "(ab|a)*c", "([ab]{2})+", "(x+x+)+y"]).to_string(),
            1 => format!("{}+", rand_class(rng, &ReCfg::basic()).render().replace('.', "[a-y]")),
            2 => format!("{}*{}", rand_class(rng, &ReCfg::basic()).render().replace('.', "[a-y]"), rand_re(rng, &ReCfg::basic(), 2).render()),
            3 => format!("[a-c]{{{}}}", rng.range(5, 20)),
            4 => format!("({})+?{}", rand_re(rng, &ReCfg::basic(), 2).render(), rand_re(rng, &ReCfg::basic(), 2).render()),
            5 if rng.chance(1, 2) => format!("{}+", rng.pick_str(&["[\\x00-\\x20]", "[\\x00-/]", "(?-u:[\\x80-\\xFF])", "(?-u:[\\xF0-\\xFF])", "[\\x00-\\x7F]", "(?s-u:[^\\x00])"])),
            5 => format!("[{}-{}]+", 'a', rng.pick(&['c', 'm', 'z'])),
            6 => rng.pick_str(&["[a-z]+[0-9]+", "[a-z0-9]+x", "([a-c][0-9])+", "[^ ]+", "[^,]+,", "\"[^\"]*\""]).to_string(),
            _ => {
                let cfg = ReCfg { max_depth: 3, ..ReCfg::basic() };
                format!("({})+", rand_re(rng, &cfg, 1).render())
            }
        };
        def.push(Pat::regex(&text, 0));
    }
    if rng.chance(1, 3) {
        def.push(Pat::regex(".+", 0).greedy(true));
    }
    if rng.chance(1, 2) {
        def.push(Pat::skip(rng.pick_str(&[" +", "[ \\n]+", "_*-", " "])));
    }
    assign_priorities(rng, &mut def);
    maybe_slice_variants(rng, &mut def);
    def.normalize();
    def
}

/// F10 subpatterns
pub fn f10_subpat(rng: &mut Rng, name: &str) -> Def {
    let bytes_mode = rng.chance(1, 4);
    let mut def = Def::new(name, "F10", !bytes_mode);
    let nsub = rng.range(1, 3);
    let cfg = ReCfg { flags: true, unicode_chars: rng.chance(1, 3), max_depth: 2, ..ReCfg::basic() };
    let mut names: Vec<String> = vec![];
    for i in 0..nsub {
        let nm = rng.pick_str(&["a", "sub", "x1", "A_b", "digit", "w"]).to_string() + &i.to_string();
        let mut text = match rng.below(7) {
            0 => rng.pick_str(&["a|b", "x|yz|", "[0-9]", "(?i)k", "(?i)s|t", "a+", "(?s).", "(?-u)[^a]", "ab?", "(a|b)c"]).to_string(),
            // literal blanks and '#': meaningful unless the *including* pattern is in verbose mode
            6 => rng.pick_str(&["a b", " ", "x #y", "[a-c] +", "- -", "q\\ r"]).to_string(),
            1 => format!("(?i){}", rand_re(rng, &cfg, 1).render()),
            _ => rand_re(rng, &cfg, 0).render(),
        };
        if !names.is_empty() && rng.chance(1, 2) {
            let r = rng.pick(&names).clone();
            text = match rng.below(3) {
                0 => format!("(?&{r}){text}"),
                1 => format!("{text}(?&{r})"),
                _ => format!("(?&{r})|{text}"),
            };
        }
        let lit = if bytes_mode && rng.chance(1, 3) {
            let mut d = text.clone().into_bytes();
            if rng.chance(1, 2) {
                d.push(0x80 | (rng.byte() & 0x7F));
            }
            Lit::b(&d)
        } else {
            Lit::s(&text)
        };
        def.subpats.push((nm.clone(), lit));
        names.push(nm);
    }
    let n = rng.range(1, 3);
    for _ in 0..n {
        let r = rng.pick(&names).clone();
        let other = rand_re(rng, &ReCfg::basic(), 2).render();
        let text = match rng.below(12) {
            // the reference directly after an escaped backslash / escaped parenthesis / other escape
            10 => {
                let esc = rng.pick_str(&["\\\\", "\\(", "\\.", "\\\\\\\\", "a\\\\", "\\["]);
                format!("{esc}(?&{r})")
            }
            11 => format!("\\\\(?&{r})\\\\(?&{r})x"),
            // verbose mode active at the reference
            7 => format!("(?x) [a-z]+ (?&{r}) [0-9]+"),
            8 => format!("(?x: (?&{r}) ) z | k(?&{r})"),
            // literal non-ASCII text around the references, short tails after the last one
            9 => {
                let pre = rng.pick_str(&["é", "[äöü]", "🦀", "λ€", "ß+"]);
                let tail = rng.pick_str(&["x", "?", "kg", "+", "é", ""]);
                format!("{pre}(?&{r}){tail}")
            }
            0 => format!("(?&{r})"),
            1 => format!("(?&{r}){other}"),
            2 => format!("{other}(?&{r})"),
            3 => format!("{other}(?&{r}){other}"),
            4 => format!("(?&{r})+"),
            5 => format!("(?&{r})x|y"),
            _ => {
                let r2 = rng.pick(&names).clone();
                format!("(?&{r})-(?&{r2})")
            }
        };
        // the referencing pattern itself may be a byte-string literal (Unicode mode off around the reference): the
        // subpattern keeps its own mode
        if rng.chance(1, 5) && text.is_ascii() && !text.contains("(?x") {
            def.push(Pat::new(PatKind::Regex, Lit::b(text.as_bytes()), 0));
        } else {
            def.push(Pat::regex(&text, 0));
        }
    }
    if rng.chance(1, 3) {
        let r = rng.pick(&names).clone();
        if rng.chance(1, 4) {
            def.push(Pat::new(PatKind::Skip, Lit::b(format!(" (?&{r})?").as_bytes()), 0));
        } else {
            def.push(Pat::skip(&format!(" (?&{r})?")));
        }
    }
    if rng.chance(1, 14) {
        // an unbounded greedy dot hidden in a subpattern, referenced from a pattern that spells no repetition itself:
        // rejected exactly like the expanded form
        let body = rng.pick_str(&[".*", "[^\\n]*", "x.+", "(?s:.)*", "(a|.*)", ".{2,}"]);
        def.subpats.push(("rest".into(), Lit::s(body)));
        let text = rng.pick_str(&["//(?&rest)", "#(?&rest)", "(?&rest)!", "q(?&rest)|z"]);
        if rng.chance(1, 2) {
            def.push(Pat::regex(text, 0).prio(95));
        } else {
            def.push(Pat::skip(text).prio(95));
        }
        def.family = "F10-greedy".into();
    } else if rng.chance(1, 10) {
        // undefined reference: must be rejected
        push_undefined_reference(rng, &mut def);
        def.family = "F10-undef".into();
    } else if rng.chance(1, 12) && def.subpats.len() >= 2 {
        // forward reference between subpatterns: must be rejected
        let later = def.subpats[1].0.clone();
        let first = &mut def.subpats[0].1;
        let mut d = first.data.clone();
        d.extend_from_slice(format!("(?&{later})").as_bytes());
        first.data = d;
        def.family = "F10-forward".into();
    }
    assign_priorities(rng, &mut def);
    def.normalize();
    def
}

/// An undefined subpattern reference in every position a pattern can stand in (regex, skip, skip with
/// named arguments, the body of another subpattern), at the start / middle / end of the pattern, quantified,
/// in str and byte-string literals, under a name never defined or a near miss of a defined one. The
/// definition is otherwise acceptable (a plain token is always present), so it must be rejected for the
/// reference alone.
pub fn push_undefined_reference(rng: &mut Rng, def: &mut Def) {
    let defined: Vec<String> = def.subpats.iter().map(|(n, _)| n.clone()).collect();
    let name = match (rng.below(4), defined.first()) {
        (0, Some(d)) => format!("{d}x"),
        (1, Some(d)) => d.to_uppercase() + "_",
        (2, Some(d)) if d.len() > 1 => d[..d.len() - 1].to_string(),
        _ => rng.pick_str(&["nope", "undefined_name", "a", "x1", "Z"]).to_string(),
    };
    let name = if defined.contains(&name) { "never_defined".to_string() } else { name };
    let text = match rng.below(7) {
        0 => format!("(?&{name})x"),
        1 => format!("x(?&{name})"),
        2 => format!("a(?&{name})b"),
        3 => format!("(?&{name})+"),
        4 => format!("q|(?&{name})"),
        5 => format!("(?&{name})"),
        _ => format!("[0-9](?&{name})?z"),
    };
    match rng.below(6) {
        0 | 1 => {
            def.push(Pat::regex(&text, 0));
        }
        2 => {
            def.push(Pat::skip(&text));
        }
        3 => {
            def.push(Pat::skip(&text).prio(40 + rng.below(9)));
        }
        4 => {
            let mut p = Pat::new(if rng.chance(1, 2) { PatKind::Regex } else { PatKind::Skip }, Lit::b(text.as_bytes()), 0);
            p.priority = Some(50 + rng.below(9));
            def.push(p);
        }
        _ => {
            // inside the body of a (used) subpattern
            def.subpats.push(("holder".into(), Lit::s(&text)));
            def.push(Pat::regex("=(?&holder)", 0).prio(60 + rng.below(9)));
        }
    }
    if !def.pats.iter().any(|p| p.kind == PatKind::Token) {
        def.push(Pat::token("zz", 0));
    }
}

/// Hostile literal alphabet for C10.
pub const LIT_ALPHA: &[&str] = &[
    "\\", ".", "+", "*", "?", "(", ")", "|", "[", "]", "{", "}", "^", "$", "#", "&", "-", "~", "\n", "\0", " ", "\t", "\"", "'",
    "a", "Z", "k", "K", "s", "S", "0", "é", "É", "ü", "λ", "Λ", "σ", "ς", "Σ", "ß", "ẞ", "ſ", "\u{212A}", "İ", "ı", "€", "😀", "ǅ", "ǆ",
    "\\d", "\\x41", "(?i)", "[a-z]", "a|b", ".*", "\\\\", "\u{80}", "\u{7FF}", "\u{800}", "\u{FFFF}", "\u{10000}",
];

/// F11 ignore-case / literal family (C10): one literal in one of the forms
pub fn f11_literal(rng: &mut Rng, name: &str) -> Def {
    let bytes_lit = rng.chance(1, 4);
    let utf8 = !bytes_lit && rng.chance(3, 4);
    let mut def = Def::new(name, "F11", utf8);
    let n = rng.range(1, 3);
    let lit = if bytes_lit {
        let len = rng.range(1, 4);
        let data: Vec<u8> = (0..len)
            .map(|_| match rng.below(5) {
                0 => rng.byte(),
                4 => *rng.pick(&[0x80u8, 0x7F, 0xFF, 0xC0, 0xBF, 0x00, 0x81]),
                1 => *rng.pick(b"\\.+*?()|[]{}^$#&-~"),
                2 => *rng.pick(b"aZkKsS"),
                _ => 0x80 | (rng.byte() & 0x7F),
            })
            .collect();
        Lit::b(&data)
    } else {
        let text: String = (0..n).map(|_| *rng.pick(LIT_ALPHA)).collect();
        Lit::s(&text)
    };
    let form = rng.below(6);
    match form {
        0 => {
            def.push(Pat::new(PatKind::Token, lit, 0));
        }
        1 => {
            let mut p = Pat::new(PatKind::Token, lit, 0);
            p.ignore_case = true;
            def.push(p);
        }
        2 | 3 => {
            // regex form of the escaped literal with ignore(case): same language as (?i) of the regex crate
            if let Some(t) = lit.as_str() {
                if !lit.bytes {
                    let mut s = String::new();
                    for c in t.chars() {
                        escape_char(c, &mut s);
                        // escape_char leaves unknown chars; NUL and quotes are fine in regex text
                    }
                    let mut p = Pat::regex(&s, 0);
                    p.ignore_case = true;
                    def.push(p);
                }
            }
            if def.pats.is_empty() {
                let mut p = Pat::new(PatKind::Token, lit, 0);
                p.ignore_case = true;
                def.push(p);
            }
        }
        _ => {
            // skip with ignore(case) + a token so that the enum has a variant
            if let (Some(t), false) = (lit.as_str(), lit.bytes) {
                let mut s = String::new();
                for c in t.chars() {
                    escape_char(c, &mut s);
                }
                let mut p = Pat::skip(&s);
                p.ignore_case = true;
                def.push(p);
            } else {
                let mut p = Pat::new(PatKind::Token, lit, 0);
                p.ignore_case = true;
                def.push(p);
            }
            def.push(Pat::token("\u{1}\u{2}", 0));
        }
    }
    // an unrelated second pattern so that "nothing else changes" is observable
    match rng.below(7) {
        6 => {
            // ignore(case) on a source that spells no letter at all: ranges whose end points are not letters but that
            // contain letters of one case only, negated forms, \x / \u escapes of letters, Unicode classes
            let t = rng.pick_str(&["[@-\\[]+", "[ -_]", "[^ -\\[]", "[!-Z]+", "[\\x41-\\x5A]+", "[^\\x00-`]+", "\\x6B", "[\\x{3B1}-\\x{3C9}]+", "[\\[-~]", "\\p{Lu}+", "[\\x{410}-\\x{42F}]", "[?-^]{2}"]);
            let mut p = if rng.chance(1, 3) { Pat::skip(t) } else { Pat::regex(t, 0) };
            p.priority = Some(30 + rng.below(9));
            p.ignore_case = true;
            def.push(p);
            if def.pats.iter().all(|p| p.kind == PatKind::Skip) {
                def.push(Pat::token("\u{1}\u{3}", 0));
            }
        }
        0 | 1 => {
            def.push(Pat::regex("[0-9]+", 0).prio(1));
        }
        2 => {
            // the same pattern text with and without the flag, in one definition
            let t = rng.pick_str(&["[x-z]+", "select", "kms", "[j-l]s?"]);
            def.push(Pat::regex(t, 0).prio(3));
            def.push(Pat::regex(t, 0).prio(2).icase());
        }
        3 => {
            let mut p = Pat::regex("[q-t]+", 0).prio(1);
            p.ignore_case = rng.chance(1, 2);
            def.push(p);
        }
        4 => {
            // a str subpattern with cased letters referenced from an ignore(case) pattern
            def.subpats.push(("word".into(), Lit::s(rng.pick_str(&["k+", "[a-z]+s", "ms|kg", "ſ?k"]))));
            def.push(Pat::regex("=(?&word)", 0).prio(40).icase());
        }
        _ => {}
    }
    def.normalize();
    def
}

/// F8 rejection candidates: each returns (def, category) where category names the must-reject
/// reason, or "ambiguity?" when the reference decides.
pub fn f8_reject(rng: &mut Rng, name: &str) -> (Def, &'static str) {
    let mut def = Def::new(name, "F8", true);
    let cat: &'static str;
    match rng.below(12) {
        0 => {
            // empty-matching pattern
            let t = rng.pick_str(&["a*", "(a|)", "x?", "a{0,2}", "(?:)", "(a*)*", "b*|c", "(?-u:\\b)", "$", "a?b?", "(ab)*", "(?:[^\\s\\S]|b)*", "a|[^\\s\\S]*", "a*[^\\s\\S]*", "[^\\s\\S]*", "[a&&b]?", "(?:[a&&b]|c)*"]);
            def.push(Pat::regex(t, 0));
            if rng.chance(1, 2) {
                def.push(Pat::token("zz", 0));
            }
            cat = "empty";
        }
        1 => {
            if rng.chance(1, 2) {
                // every dot flavour (flags s, R, -u; byte-string literals) x quantifier x context x position
                let (dot, bytes_only) = *rng.pick(&[(".", false), ("(?s:.)", false), ("(?R:.)", false), ("(?sR:.)", false), ("[^\\n]", false),
                    ("(?-u:.)", true), ("(?s-u:.)", true), ("(?R-u:.)", true), ("(?sR-u:.)", true),
                    // a capture group around the dot does not change what is repeated
                    ("(.)", false), ("(?P<d>.)", false), ("((?s:.))", false), ("(?<d>[^\\n])", false), ("(?:(.))", false), ("(?-u:(.))", true)]);
                let quant = rng.pick_str(&["*", "+", "{2,}", "{0,}", "{1,}"]);
                let ctx = rng.pick_str(&["{D}", "a{D}", "({D})", "a|{D}", "x({D})y", "(a{D})+", "({D}a){2}", "a(b|c{D})", "(?:{D})?z"]);
                let as_bytes_literal = rng.chance(1, 4);
                // in a byte-string literal the plain dot is already a byte dot
                let dot = if as_bytes_literal { rng.pick_str(&[".", "(?s:.)", "(?R:.)", "(?s).", "(?R)."]) } else { dot };
                let text = ctx.replace("{D}", &format!("{dot}{quant}"));
                if bytes_only || as_bytes_literal {
                    def.utf8 = false;
                } else {
                    def.utf8 = rng.chance(2, 3);
                }
                let lit = if as_bytes_literal { Lit::b(text.as_bytes()) } else { Lit::s(&text) };
                let kind = if rng.chance(1, 3) { PatKind::Skip } else { PatKind::Regex };
                let mut p = Pat::new(kind, lit, 0);
                match rng.below(4) {
                    0 => p.priority = Some(rng.range(1, 30)),
                    1 => p.allow_greedy = Some(false),
                    2 => p.ignore_case = true,
                    _ => {}
                }
                def.push(p);
                def.push(Pat::token("zz", 0));
                def.normalize();
                return (def, "greedy");
            }
            let t = rng.pick_str(&[".*", ".+", "a.*", "(a.*)+", "(.+)", "a|.*", "x(.*)y", "[^\\n]*", "[^\\n]+b", "(?s:.)*", "(?s).+", "(a|(b.*))c", "((x.+)?y)z", "(.*a){2}", ".{2,}", "a(b|c.*)"]);
            def.push(Pat::regex(t, 0));
            cat = "greedy";
        }
        2 => {
            let t = rng.pick_str(&["^a", "(?m:^)a", "(?-u:\\b)a", "\\Aa", "(?-u:\\b{start})a", "(?-u:\\B)a", "(^|b)a", "(?-u:\\b{start-half})a"]);
            def.push(Pat::regex(t, 0));
            def.push(Pat::token("q", 0));
            cat = "lookbehind";
        }
        3 => {
            if rng.chance(1, 4) {
                // the same kinds of unsupported syntax written as byte-string patterns
                let t: &[u8] = *rng.pick(&[&br"(a|b)x\1"[..], &br#"(["'])[a-z]*\1"#[..], &br"a\7"[..], &br"\0"[..], &br"a(?=b)"[..], &br"\bfoo"[..], &b"(?<n>a)\\k<n>"[..]]);
                def.utf8 = rng.chance(1, 2);
                def.push(Pat::new(PatKind::Regex, Lit::b(t), 0));
                def.push(Pat::token("zz", 0));
                def.normalize();
                return (def, "unsupported");
            }
            let t = rng.pick_str(&["\\bfoo", "foo\\b", "(?<n>a)\\k<n>", "a(?=b)", "a(?!b)", "(?<=a)b", "\\1", "a{2,1}", "[z-a]", "(", "a)", "[a", "\\p{Nope}", "(?P<n>a", "*a", "a**", "\\8"]);
            def.push(Pat::regex(t, 0));
            cat = "unsupported";
        }
        4 => {
            if rng.chance(1, 2) {
                def.subpats.push(("word".into(), Lit::s("[a-z]+")));
                def.push(Pat::regex("(?&word)", 0).prio(3));
            }
            push_undefined_reference(rng, &mut def);
            cat = "undefined-subpattern";
        }
        5 => {
            let t = rng.pick_str(&["(?-u:.)", "(?-u:[^a])", "(?-u:\\xFF)", "(?s-u:.)a", "(?-u:[\\x80-\\xBF])", "a(?-u:\\W)"]);
            def.push(Pat::regex(t, 0));
            cat = "non-utf8-in-str-mode";
        }
        6 => {
            let data: &[u8] = *rng.pick(&[&b"\xFF"[..], &b"a\x80"[..], &b"\xC3"[..], &b"\xE2\x82"[..], &b"\x80"[..], &b"k\x80k"[..], &b"\xBF"[..], &b"a\xC0"[..]]);
            // as a token, a case-insensitive token, a regex or a skip
            let mut p = match rng.below(4) {
                0 => Pat::new(PatKind::Token, Lit::b(data), 0),
                1 => {
                    let mut p = Pat::new(PatKind::Token, Lit::b(data), 0);
                    p.ignore_case = true;
                    p
                }
                2 => Pat::new(PatKind::Regex, Lit::b(data), 0),
                _ => Pat::new(PatKind::Skip, Lit::b(data), 0),
            };
            if rng.chance(1, 3) {
                p.priority = Some(rng.range(1, 20));
            }
            let is_skip = p.kind == PatKind::Skip;
            def.push(p);
            if is_skip {
                def.push(Pat::token("zz", 0));
            }
            cat = "non-utf8-in-str-mode";
        }
        7 => {
            def.subpats.push(("bad".into(), Lit::b(b"\xFF")));
            if rng.chance(1, 2) {
                def.push(Pat::regex("(?&bad)a", 0));
            } else {
                def.push(Pat::regex("abc", 0));
            }
            cat = "non-utf8-in-str-mode";
        }
        8 => {
            // equal-priority overlaps of every kind: the reference decides
            let pairs: &[(&str, &str)] = &[
                ("[a-z]+", "[a-c]+"), ("abc", "ab[c]"), ("a+", "a{2}"), ("[0-9]+", "\\d+"), ("(?i:k)", "k"), ("a|b", "b|c"),
                ("ab", "a[b-c]"), ("[a-z]{3}", "foo"), ("x*y", "xy"), ("a(?-u:\\b)", "a"), ("a$", "a"), ("(ab)+", "abab"),
                ("[ab]+", "[bc]+"), ("fo+", "foo"), ("a.", "ab"),
            ];
            if rng.chance(1, 5) {
                // case-insensitive ASCII tokens whose fold includes non-ASCII characters (Kelvin sign, long s)
                let (t, other) = *rng.pick(&[("k", "\u{212A}"), ("kelvin", "\u{212A}elvin"), ("ms", "m\u{17F}"), ("s", "\u{17F}"), ("ok", "o\u{212A}")]);
                let pr = rng.range(2, 20);
                def.push(Pat::token(t, 0).icase().prio(pr));
                if rng.chance(1, 2) {
                    def.push(Pat::token(other, 0).prio(pr));
                } else {
                    def.push(Pat::regex(other, 0).prio(pr));
                }
                def.normalize();
                return (def, "ambiguity?");
            }
            let (a, b) = *rng.pick(pairs);
            let pa = Pat::regex(a, 0);
            let mut pb = Pat::regex(b, 0);
            if rng.chance(1, 3) {
                pb = Pat::token(b, 0);
            }
            let same = rng.chance(2, 3);
            let pr = rng.range(1, 9);
            def.push(if same { pa.prio(pr) } else { pa });
            def.push(if same { pb.prio(pr) } else { pb });
            if rng.chance(1, 3) {
                def.push(Pat::regex(rng.pick_str(&["[a-z]+", "a+b*", "foo|bar"]), 0).prio(pr));
            }
            cat = "ambiguity?";
        }
        9 if rng.chance(1, 2) => {
            // three or four overlapping patterns, priorities drawn from a small set and declared in
            // random order (tied leaders need not be adjacent; a lower one may sit between them)
            let pool = ["[a-z]+", "[a-z0-9]+", "[a-z_]+", "if|else", "[a-f]+", "i[a-z]", "[a-z]{2}", "(if)+", "\\w+", "[^ ]+"];
            let n = rng.range(3, 4);
            let mut prios = vec![5usize, 5, 3, 4];
            prios.truncate(n);
            if rng.chance(1, 3) {
                prios[1] = 6;
            }
            rng.shuffle(&mut prios);
            let mut used: Vec<&str> = vec![];
            for k in 0..n {
                let mut t = *rng.pick(&pool);
                while used.contains(&t) {
                    t = *rng.pick(&pool);
                }
                used.push(t);
                if rng.chance(1, 4) && k == 0 {
                    def.push(Pat::token("if", 0).prio(prios[k]));
                } else {
                    def.push(Pat::regex(t, 0).prio(prios[k]));
                }
            }
            cat = "ambiguity?";
        }
        9 => {
            // random soup, all with the same explicit priority
            let cfg = ReCfg::basic();
            let n = rng.range(2, 4);
            let pr = rng.range(1, 5);
            for _ in 0..n {
                def.push(Pat::regex(&rand_re(rng, &cfg, 1).render(), 0).prio(pr));
            }
            cat = "ambiguity?";
        }
        10 if rng.chance(1, 3) => {
            // default priorities whose value hinges on one arm of the rule: an empty alternative (minimum 0), alternatives
            // of which one is a complete prefix of another (regex-syntax factors the prefix out and leaves an empty
            // alternative), open-ended counted repetitions, optional tails; next to a competitor whose priority equals the
            // documented value, the value plus two, or lies in between
            let (pat, rivals): (&str, &[&str]) = *rng.pick(&[
                ("a[0-9]|a[0-9]b", &["a[0-9a-f]", "[a-z][0-9][a-z]", "a[0-9]b?c?"][..]),
                ("x(ab|)", &["[u-z]", "xab", "x[a-c]{2}"][..]),
                ("[0-9]+\\.[0-9]|[0-9]+\\.[0-9]f", &["[0-9]\\.[0-9a-f]f?", "[0-9][.][0-9]", "[0-9.]{3}"][..]),
                ("(|k)m", &["[l-n]", "km", "[k-m]m"][..]),
                ("[0-9]{2,}", &["[0-9][0-9a-f]", "[0-9]+", "[0-9]{2}x?"][..]),
                ("a{3,}", &["aaa", "a+", "[a-c]{3}"][..]),
                ("ab(c|cd|)", &["[a-b]{2}", "abc", "ab[c-d]?d?"][..]),
                ("(q|qr|qrs)t", &["[p-r][s-u]", "qt", "q[r-t]+"][..]),
            ]);
            def.push(Pat::regex(pat, 0));
            let r = *rng.pick(rivals);
            if rng.chance(1, 4) && !r.contains('[') && !r.contains('+') && !r.contains('?') {
                def.push(Pat::token(r, 0));
            } else {
                def.push(Pat::regex(r, 0));
            }
            if rng.chance(1, 3) {
                def.push(Pat::regex(*rng.pick(rivals), 0).prio(rng.range(1, 8)));
            }
            cat = "ambiguity?";
        }
        10 => {
            // default priorities only
            let cfg = ReCfg::basic();
            let n = rng.range(2, 4);
            for _ in 0..n {
                if rng.chance(1, 2) {
                    let len = rng.range(1, 3);
                    let t: String = (0..len).map(|_| *rng.pick(&['a', 'b', 'c'])).collect();
                    def.push(Pat::token(&t, 0));
                } else {
                    def.push(Pat::regex(&rand_re(rng, &cfg, 1).render(), 0));
                }
            }
            cat = "ambiguity?";
        }
        _ => {
            // skip vs token overlap, look-around overlap
            def.push(Pat::skip(rng.pick_str(&[" +", "a", "[a-b]"])));
            def.push(Pat::regex(rng.pick_str(&[" ", "a", "[ a]", "b"]), 0));
            cat = "ambiguity?";
        }
    }
    def.normalize();
    (def, cat)
}

/// F7 curated definitions: one per feature so that no seed can lose a feature.
pub fn f7_curated() -> Vec<Def> {
    let mut out = vec![];
    let mut mk = |utf8: bool, pats: Vec<Pat>| {
        let mut d = Def::new("X", "F7", utf8);
        for p in pats {
            d.push(p);
        }
        d.normalize();
        out.push(d);
    };
    // book-style
    mk(true, vec![Pat::skip("[ \\t\\n\\f]+"), Pat::token("fast", 0), Pat::token(".", 0), Pat::regex("[a-zA-Z]+", 0)]);
    mk(true, vec![Pat::skip(" +"), Pat::regex("[0-9]+", 0), Pat::regex("[0-9]+\\.[0-9]+", 0), Pat::token("+", 0), Pat::token("-", 0)]);
    mk(true, vec![Pat::regex("[a-z]+", 0), Pat::token("fn", 0), Pat::token("for", 0), Pat::token("format", 0), Pat::skip(" ")]);
    // jump table (>2 edges), LUT test, range with exception
    mk(true, vec![Pat::regex("[a-c]x", 0), Pat::regex("[d-f]y", 0), Pat::regex("[g-i]z", 0), Pat::regex("[j-l]w", 0)]);
    mk(true, vec![Pat::regex("[acegi]+", 0), Pat::regex("[bdfh]k", 0)]);
    mk(true, vec![Pat::regex("[a-ce-g]q", 0), Pat::regex("d", 0)]);
    mk(true, vec![Pat::regex("[adgjm]r", 0)]);
    // fast loop of every length, two-state loop
    mk(true, vec![Pat::regex("a+", 0), Pat::regex("(bc)+", 0), Pat::skip(" +")]);
    mk(false, vec![Pat::regex("a+", 0), Pat::regex("(bc)+", 0), Pat::skip(" +")]);
    // a start state that loops on itself and is also re-entered through a longer cycle (the fast loop of the root runs
    // again in the middle of a token)
    mk(true, vec![Pat::regex("(a|bc)*d", 0)]);
    mk(false, vec![Pat::regex("([0-9]|x[a-f])*;", 0)]);
    mk(true, vec![Pat::regex("(a|bc)*d", 0), Pat::regex("(a|bc)*e", 0)]);
    // more than 32 (and more than 40) distinct fast-loop classes and look-up-table tests in one definition: one pattern
    // per opening byte, each looping over its own class - single ranges, and classes made of two and three ranges
    {
        let openers = "ABCDEFGHIJKLMNOPQRSTUVWXYZ!@#%&=;:<>?~^|";
        for (utf8, multi) in [(true, false), (false, true), (true, true)] {
            let mut pats = vec![];
            for (i, o) in openers.chars().enumerate() {
                let x = (b'a' + (i % 5) as u8) as char;
                let y = (b'f' + (i / 5) as u8) as char;
                let class = if multi {
                    let d = (b'0' + (i % 10) as u8) as char;
                    if i % 3 == 0 { format!("[{x}-{y}0-{d}_]") } else { format!("[{x}-{y}0-{d}]") }
                } else {
                    format!("[{x}-{y}]")
                };
                let mut esc = String::new();
                escape_char(o, &mut esc);
                pats.push(Pat::regex(&format!("{esc}{class}+"), 0));
            }
            pats.push(Pat::skip(" +"));
            mk(utf8, pats);
        }
    }
    // early accept (byte mode, all 256 edges), kept late accept
    mk(false, vec![Pat::regex("a(?s-u:.)", 0), Pat::token("b", 0)]);
    mk(false, vec![Pat::regex("(?s-u:.)", 0).prio(1), Pat::regex("ab+", 0)]);
    mk(false, vec![Pat::regex("x(?s-u:.)*", 0).greedy(true), Pat::token("y", 0)]);
    // end-of-input edges / look-around
    mk(true, vec![Pat::regex("a$", 0), Pat::regex("b", 0), Pat::regex("a+c", 0)]);
    mk(true, vec![Pat::regex("[a-z]+(?-u:\\b)", 0), Pat::regex("[a-z]+[0-9]", 0).prio(20), Pat::skip(" ")]);
    mk(true, vec![Pat::regex("ab\\z", 0), Pat::regex("a", 0), Pat::regex("b", 0)]);
    mk(true, vec![Pat::regex("a(?m:$)", 0), Pat::token("\n", 0), Pat::regex("a", 0).prio(1)]);
    // maximal munch with fallback (context kept across a failed longer attempt)
    mk(true, vec![Pat::token("a", 0), Pat::token("abcd", 0), Pat::regex("b+", 0)]);
    mk(true, vec![Pat::regex("[0-9]+", 0), Pat::regex("[0-9]+e[0-9]+", 0), Pat::regex("e", 0)]);
    mk(true, vec![Pat::token("...", 0), Pat::token(".", 0)]);
    // unicode
    mk(true, vec![Pat::regex("\\p{Greek}+", 0), Pat::regex("[a-z]+", 0), Pat::skip("\\s")]);
    mk(true, vec![Pat::regex("[^a]", 0), Pat::regex("a+", 0)]);
    mk(true, vec![Pat::token("é", 0), Pat::token("€", 0), Pat::token("😀", 0), Pat::regex("[à-ÿ]+", 0).prio(1)]);
    mk(true, vec![Pat::token("kelvin", 0).icase(), Pat::regex("[0-9]+", 0)]);
    mk(true, vec![Pat::regex("straße", 0).icase(), Pat::skip(" ")]);
    // byte literals
    mk(false, vec![Pat::new(PatKind::Token, Lit::b(b"\xFF\xFE"), 0), Pat::new(PatKind::Regex, Lit::b(b"[a-z]+\x80"), 0), Pat::regex("(?-u:[\\x80-\\xBF])+", 0).prio(1)]);
    mk(true, vec![Pat::new(PatKind::Token, Lit::b("é".as_bytes()), 0), Pat::token("e", 0)]);
    // skips of several kinds, error in between
    mk(true, vec![Pat::skip("//[a-z ]*"), Pat::skip("[ \\n]"), Pat::regex("[a-z]+", 0), Pat::token("/", 0)]);
    // lazy quantifiers denote the same language
    mk(true, vec![Pat::regex("a+?b", 0), Pat::regex("a*?", 0).prio(1), Pat::regex("x{2,3}?", 0)]);
    mk(true, vec![Pat::regex("\"[^\"]*?\"", 0), Pat::regex("[a-z]+?", 0)]);
    // the graph re-enters its root state in the middle of a token (all patterns share a starred prefix)
    mk(true, vec![Pat::regex("(ab)*c", 0), Pat::regex("(ab)*d", 0)]);
    mk(true, vec![Pat::regex("a*b", 0)]);
    mk(false, vec![Pat::regex("[a-c]*x", 0), Pat::regex("[a-c]*yz", 0)]);
    // ... with a jump-table state (three or more edges) that has an edge back into the start state, and with an
    // accepting state on the cycle (the attempt can die in the re-entered start state after a match was recorded)
    mk(true, vec![Pat::regex("(ab)*c", 0), Pat::regex("(ab)*ad", 0), Pat::regex("(ab)*ae", 0)]);
    mk(false, vec![Pat::regex("(ab)*c", 0), Pat::regex("(ab)*ad", 0), Pat::regex("(ab)*ae", 0), Pat::regex("(ab)*af", 0)]);
    mk(true, vec![Pat::regex("(ab)*a", 0), Pat::regex("(ab)*c", 0)]);
    mk(false, vec![Pat::regex("(ab)*a", 0), Pat::regex("(ab)*c", 0), Pat::skip(" ")]);
    mk(true, vec![Pat::regex("(xyz)*x", 0), Pat::regex("(xyz)*xy", 0), Pat::regex("(xyz)*w", 0)]);
    mk(true, vec![Pat::regex("([0-9]x)*[0-9]", 0), Pat::regex("([0-9]x)*[0-9]y", 0), Pat::regex("([0-9]x)*[0-9]z", 0), Pat::regex("([0-9]x)*;", 0)]);
    // more than 64 (and more than 128) patterns: leaf numbers beyond one machine word
    for (utf8, n) in [(true, 70usize), (false, 135usize)] {
        let mut pats = vec![Pat::regex("[a-z]+", 0)];
        for k in 0..n {
            let w: String = [(b'a' + (k / 26) as u8) as char, (b'a' + (k % 26) as u8) as char].iter().collect();
            pats.push(Pat::token(&w, 0));
        }
        mk(utf8, pats);
    }
    // ASCII-only classes that contain DEL (0x7F) or NUL next to the non-ASCII range, tested outside a loop in a state
    // with one or two edges (look-up-table test, never a fast loop), next to multi-byte input
    mk(true, vec![Pat::regex("[\\x00-\\x08\\x0E-\\x1F\\x7F]", 0), Pat::regex("[a-z]+", 0)]);
    mk(true, vec![Pat::regex("x[\\x00-\\x08\\x0E-\\x1F\\x7F]", 0), Pat::regex("[a-zé]+", 0).prio(1)]);
    mk(true, vec![Pat::regex("[!#%\\x7F]y?", 0), Pat::regex("[acegi\\x7F]z", 0), Pat::regex("é+", 0)]);
    mk(false, vec![Pat::regex("[\\x01-\\x08\\x0E-\\x1F\\x7F]", 0), Pat::regex("(?-u:[\\x80-\\xFF])+", 0)]);
    mk(true, vec![Pat::regex("[\\x00\\x10\\x20\\x30\\x7E]k", 0), Pat::regex("[\\x7F\\x10\\x21\\x31]q", 0), Pat::regex("\\p{Greek}+", 0)]);
    // loops over negated classes that exclude single non-ASCII characters (every lead byte has an edge, but not every
    // continuation byte leads back into the loop)
    mk(true, vec![Pat::regex("\"[^\"\u{e9}]*\"", 0), Pat::regex("[a-z]+", 0)]);
    mk(true, vec![Pat::regex("[^\"\\\\\\n\u{2028}\u{2029}]+", 0), Pat::token("\"", 0)]);
    mk(true, vec![Pat::regex("[^ \u{e9}\u{20ac}\u{1F600}]+", 0), Pat::skip(" ")]);
    mk(true, vec![Pat::regex("\\S+", 0), Pat::skip("\\s+")]);
    mk(true, vec![Pat::regex("[^\\p{Greek} ]+", 0), Pat::regex("\\p{Greek}", 0), Pat::skip(" ")]);
    mk(true, vec![Pat::regex("#[^\\n\u{85}\u{2028}]*", 0).greedy(true), Pat::regex("[a-z]+", 0)]);
    // anchored variant of a text next to its unanchored variant
    mk(true, vec![Pat::token("end", 0), Pat::regex("end$", 0).prio(10), Pat::token(";", 0)]);
    mk(true, vec![Pat::regex("ab(?-u:\\b)", 0), Pat::regex("ab(?-u:\\w)+!", 0)]);
    // a short pattern that is a proper prefix of an anchored longer one
    mk(true, vec![Pat::regex("a", 0), Pat::regex("ab$", 0), Pat::regex("c", 0)]);
    mk(false, vec![Pat::regex("[0-9]", 0), Pat::regex("[0-9]x\\z", 0), Pat::skip(" ")]);
    mk(true, vec![Pat::token("end", 0), Pat::regex("end if(?-u:\\b)", 0), Pat::regex("[a-z]+", 0).prio(1), Pat::skip(" ")]);
    // a loop state whose only other way out is the end-of-input edge (no unanchored sibling)
    mk(true, vec![Pat::regex("#+$", 0), Pat::token(",", 0), Pat::regex("[a-z]+", 0)]);
    mk(false, vec![Pat::regex("[0-9]+\\z", 0), Pat::token(";", 0)]);
    mk(true, vec![Pat::regex(";$", 0), Pat::regex("[a-z]+", 0), Pat::token(",", 0)]);
    mk(true, vec![Pat::regex("#$", 0), Pat::token("=", 0), Pat::token("==", 0), Pat::regex("[a-z]+", 0), Pat::skip(" ")]);
    // loops over contiguous classes that touch 0x00 or 0xFF (a single comparison describes them)
    mk(true, vec![Pat::regex("[\\x00-\\x20]+", 0), Pat::regex("[a-z]+", 0)]);
    mk(false, vec![Pat::regex("(?-u:[\\x80-\\xFF])+", 0), Pat::regex("[\\x00-/]+", 0), Pat::regex("[a-z]+", 0)]);
    mk(false, vec![Pat::regex("[a-z]+$", 0).prio(9), Pat::regex("[a-z]+(?s-u:.)x", 0).prio(8), Pat::regex("[a-z]", 0).prio(1)]);
    mk(true, vec![Pat::regex("[a-z]+", 0), Pat::regex("[a-z]+\\z", 0).prio(9), Pat::skip(" ")]);
    mk(true, vec![Pat::token("if", 0), Pat::regex("if(?-u:\\b)", 0).prio(50), Pat::regex("[a-zA-Z_][a-zA-Z0-9_]*", 0).prio(3)]);
    mk(false, vec![Pat::regex("ab", 0), Pat::regex("ab(?m:$)", 0).prio(7), Pat::token("\n", 0), Pat::regex("abc", 0)]);
    // more than 8 (and more than 16) distinct loop / test masks: several LUT tables, every bit position
    {
        let mut pats = vec![];
        for k in 0..20u32 {
            // irregular class: letters whose index has a bit in common with k+1, never the prefix letters
            let cls: String = (0..16u32).filter(|j| (j + 3 * k) % 5 != 0 && (j ^ k) % 3 != 1).map(|j| (b'a' + 5 + j as u8) as char).collect();
            let prefix = ["0", "1", "2", "3", "4", "5", "6", "7", "8", "9", "A", "B", "C", "D", "E", "F", "G", "H", "I", "J"][k as usize];
            pats.push(Pat::regex(&format!("{prefix}[{cls}]+"), 0));
        }
        mk(true, pats.clone());
        mk(false, pats.into_iter().take(11).collect());
    }
    // every comparison shape of the if-chain (at most 2 comparison operations, outside loops, <= 2 edges):
    // range touching 0x00 with one hole, range touching 0xFF with one hole, full range with one and two
    // holes, two separate single bytes, ASCII-restricted negated class in str mode
    mk(true, vec![Pat::regex("x[\\x00-\\x08\\x0A-\\x1F]y", 0)]);
    mk(false, vec![Pat::regex("x(?-u:[\\xE0-\\xEF\\xF1-\\xFF])y", 0)]);
    mk(false, vec![Pat::regex("a(?s-u:[^x])b", 0), Pat::regex("c(?s-u:[^ac])d", 0)]);
    mk(false, vec![Pat::regex("q(?s-u:[^\\x00])", 0), Pat::regex("r(?s-u:[^\\xFF])r", 0)]);
    mk(true, vec![Pat::regex("<[[:ascii:]&&[^>]]>", 0), Pat::regex("k[ad]k", 0)]);
    mk(true, vec![Pat::regex("\\[[\\x00-\\x7F&&[^\\]\\n]]\\]", 0), Pat::token("\n", 0)]);
    // byte-mode lexers with Unicode-aware (str literal) skip patterns
    mk(false, vec![Pat::skip("\\s+"), Pat::regex("[a-z]+", 0), Pat::regex("(?-u:[\\x80-\\xFF])", 0).prio(1)]);
    mk(false, vec![Pat::skip("#."), Pat::skip("[^a-z#]").prio(1), Pat::regex("[a-z]+", 0)]);
    // only skips, no variant at all
    mk(true, vec![Pat::skip("[ \\n]+"), Pat::skip("#[a-z]*")]);
    // no pattern can ever match (empty languages): the root must not keep edges into itself
    mk(true, vec![Pat::regex("[a-c]*(x$y)+", 0)]);
    mk(false, vec![Pat::regex("a+$b", 0), Pat::regex("[a-c]*\\zq", 0).prio(9)]);
    // dot
    mk(true, vec![Pat::regex(".", 0).prio(1), Pat::regex("ab", 0)]);
    mk(false, vec![Pat::regex(".", 0).prio(1), Pat::regex("ab", 0)]);
    // a large automaton: several Unicode categories (hundreds of states, several hundred distinct LUT masks)
    mk(true, vec![Pat::regex("\\p{L}+", 0), Pat::regex("\\p{S}+", 0), Pat::regex("\\p{No}+", 0), Pat::regex("\\p{Ps}+", 0), Pat::regex("→#[g-k]+(?-u:\\b)", 0).prio(50), Pat::token("#", 0)]);
    mk(true, vec![Pat::regex("\\p{L}+", 0), Pat::regex("\\p{S}+", 0), Pat::regex("\\p{No}+", 0), Pat::regex("\\p{Ps}+", 0),
        Pat::regex("→#[\\u{100}-\\u{13F}\\u{180}-\\u{1BF}\\u{200}-\\u{23F}]", 0), Pat::regex("→#[g-k]+(?-u:\\b)", 0)]);
    // a state that is a late accept AND loops on itself (assertion satisfied by the repeated byte itself)
    mk(true, vec![Pat::regex("\\n+(?m:$)", 0), Pat::regex("a", 0), Pat::skip(" ")]);
    mk(true, vec![Pat::regex("x+(?-u:\\B)", 0), Pat::regex("x", 0).prio(1), Pat::regex("[0-9]", 0)]);
    mk(false, vec![Pat::regex("[a-z]+(?-u:\\B)", 0).prio(9), Pat::regex("[a-z]+", 0).prio(3), Pat::skip(" ")]);
    // a look-ahead inside a repetition that follows an already complete match (late accept on a loop entered from early accepts)
    mk(true, vec![Pat::regex("(?m)#[^\\n]*(\\n$)*", 0).greedy(true), Pat::regex("[a-z]+", 0), Pat::token("\n", 0)]);
    mk(true, vec![Pat::regex("(?m)b(\\n$)*", 0), Pat::regex("a", 0), Pat::token("\n", 0)]);
    mk(true, vec![Pat::regex("a(-(?-u:\\B))*", 0), Pat::regex("-", 0).prio(1), Pat::regex("[0-9]", 0)]);
    mk(false, vec![Pat::regex("k( (?-u:\\B))+", 0), Pat::regex(" ", 0).prio(1), Pat::regex("k", 0).prio(1)]);
    // two alternatives with ADJACENT byte classes and the same continuation (edges merged by de-duplication)
    mk(true, vec![Pat::regex("#[\\x00-\\x1f]!|#[\\x20-\\x7e]!", 0), Pat::regex("[a-z]+", 0)]);
    mk(false, vec![Pat::new(PatKind::Regex, Lit::b(b"a[\\x00-\\x7f]b|a[\\x80-\\xff]b"), 0), Pat::regex("[0-9]", 0)]);
    mk(false, vec![Pat::new(PatKind::Regex, Lit::b(b"x[\\x80-\\xbf]y|x[\\xc0-\\xff]y"), 0), Pat::regex("z", 0)]);
    mk(false, vec![Pat::new(PatKind::Regex, Lit::b(b"q[\\x00-\\x2f]|q[\\x30-\\x39]"), 0).prio(5), Pat::regex("q", 0).prio(1)]);
    // binary tag lexers: more than two edges in the root, the highest byte with an edge on a table-size boundary
    mk(false, vec![Pat::new(PatKind::Token, Lit::b(b"\x00"), 0), Pat::new(PatKind::Token, Lit::b(b"\x01"), 0), Pat::new(PatKind::Token, Lit::b(b"\x02"), 0), Pat::new(PatKind::Token, Lit::b(b"\x7f"), 0), Pat::new(PatKind::Token, Lit::b(b"\x80"), 0)]);
    mk(false, vec![Pat::new(PatKind::Token, Lit::b(b"\x01"), 0), Pat::new(PatKind::Token, Lit::b(b"\x3f"), 0), Pat::new(PatKind::Token, Lit::b(b"\x40"), 0), Pat::new(PatKind::Regex, Lit::b(b"[\x10-\x20]+"), 0)]);
    mk(false, vec![Pat::new(PatKind::Token, Lit::b(b"a\x00"), 0), Pat::new(PatKind::Token, Lit::b(b"a\x7f"), 0), Pat::new(PatKind::Token, Lit::b(b"a\x7e"), 0), Pat::new(PatKind::Token, Lit::b(b"a\x30"), 0)]);
    mk(false, vec![Pat::new(PatKind::Token, Lit::b(b"\xfe"), 0), Pat::new(PatKind::Token, Lit::b(b"\xff"), 0), Pat::new(PatKind::Token, Lit::b(b"\x81"), 0), Pat::new(PatKind::Token, Lit::b(b"\x80\x80"), 0), Pat::new(PatKind::Token, Lit::b(b"\x00"), 0)]);
    // comment-style skips: one opening byte, then a class loop that contains the opening byte
    mk(true, vec![Pat::skip("#[ -~]*"), Pat::regex("[a-z]+", 0), Pat::token("\n", 0)]);
    mk(false, vec![Pat::skip(";[a-z ;]*"), Pat::regex("[0-9]+", 0), Pat::skip("\\n")]);
    // a one-byte alternative next to a look-ahead alternative of the same pattern, plus a weaker pattern for that byte
    mk(true, vec![Pat::regex("x|ab$", 0).prio(5), Pat::regex("[a-z]", 0).prio(1)]);
    mk(true, vec![Pat::regex(";|end$", 0).prio(5), Pat::regex("[;,.]", 0).prio(1), Pat::regex("[a-z]+", 0).prio(2)]);
    mk(false, vec![Pat::regex("q|rs(?-u:\\b)", 0).prio(7), Pat::regex("[a-z]", 0).prio(2), Pat::skip(" ")]);
    // an enum without any pattern at all (no leaves): every byte is an error
    {
        let mut d = Def::new("X", "F7", true);
        d.variants.push(VarKind::Unit);
        out.push(d.clone());
        d.utf8 = false;
        out.push(d);
    }
    for (i, d) in out.iter_mut().enumerate() {
        d.name = format!("X{i}");
    }
    out
}

/// Pick a family by index for the general-purpose mix used by C01/C02/C03 etc.
pub fn mixed(rng: &mut Rng, name: &str, i: usize) -> Def {
    match i % 12 {
        0 | 1 => f1_soup(rng, name),
        2 => f1x_exotic(rng, name),
        3 | 4 => f2_keywords(rng, name),
        5 => f3_unicode(rng, name),
        6 => f4_bytes(rng, name),
        7 => f5_look(rng, name),
        8 | 9 => f6_loops(rng, name),
        10 => f10_subpat(rng, name),
        _ => f11_literal(rng, name),
    }
}

/// F9 callbacks: a small base definition with recording callbacks of every supported return type.
pub fn f9_callbacks(rng: &mut Rng, name: &str) -> Def {
    let mut def = match rng.below(6) {
        0 => f2_keywords(rng, name),
        1 => f6_loops(rng, name),
        2 | 3 => f5_look(rng, name),
        _ => f1_soup(rng, name),
    };
    f9_decorate(rng, def)
}

/// Attach recording callbacks of every supported return type to an existing definition.
pub fn f9_decorate(rng: &mut Rng, mut def: Def) -> Def {
    def.family = "F9".into();
    def.error = match rng.below(4) {
        0 => ErrKind::Unit,
        1 => ErrKind::Custom,
        2 => ErrKind::CustomCbInline,
        _ => ErrKind::CustomCb,
    };
    // keep keyword lexers small
    if def.pats.len() > 10 {
        let keep: Vec<Pat> = def.pats.iter().filter(|p| p.kind == PatKind::Skip).cloned().chain(def.pats.iter().filter(|p| p.kind != PatKind::Skip).take(8).cloned()).collect();
        def.pats = keep;
        // re-number variants
        let mut nv = 0;
        for p in def.pats.iter_mut() {
            if p.kind != PatKind::Skip {
                p.variant = nv;
                nv += 1;
            }
        }
        def.variants = vec![VarKind::Unit; nv];
    }
    for v in def.variants.iter_mut() {
        *v = VarKind::Unit;
    }
    let unit_variants: Vec<usize> = (0..def.variants.len()).collect();
    let mut any = false;
    let n = def.pats.len();
    for i in 0..n {
        let kind = def.pats[i].kind;
        if kind == PatKind::Skip {
            if rng.chance(1, 2) {
                let ret = *rng.pick(CB_SKIP_KINDS);
                def.pats[i].cb = Some(Cb { ret, inline: rng.chance(1, 3), bump: rng.chance(1, 5), salt: rng.below(1000) as u32, target: 0 });
                def.pats[i].cb_positional = rng.chance(1, 2);
                any = true;
            }
            continue;
        }
        if !rng.chance(3, 4) {
            if rng.chance(1, 4) {
                let v = def.pats[i].variant;
                def.variants[v] = VarKind::Slice;
            }
            continue;
        }
        any = true;
        if rng.chance(1, 12) {
            // the library's own helper `logos::skip` as the callback of a unit variant
            def.pats[i].cb = Some(Cb { ret: CbRet::SkipAlways, inline: false, bump: false, salt: BUILTIN_SKIP, target: def.pats[i].variant });
            def.pats[i].cb_positional = rng.chance(1, 2);
            continue;
        }
        let value = rng.chance(2, 5);
        let ret = if value { *rng.pick(CB_VAL_KINDS) } else { *rng.pick(CB_UNIT_KINDS) };
        let v = def.pats[i].variant;
        if value {
            def.variants[v] = VarKind::U64;
        }
        def.pats[i].cb = Some(Cb { ret, inline: rng.chance(1, 3), bump: rng.chance(1, 4), salt: rng.below(1000) as u32, target: v });
        def.pats[i].cb_positional = rng.chance(1, 2);
    }
    // token-returning callbacks emit some *unit* variant (possibly another one)
    let units: Vec<usize> = unit_variants.into_iter().filter(|&v| def.variants[v] == VarKind::Unit).collect();
    for p in def.pats.iter_mut() {
        if let Some(cb) = p.cb.as_mut() {
            if matches!(cb.ret, CbRet::Tok | CbRet::ResTok | CbRet::FilterTok | CbRet::FilterResTok) {
                if units.is_empty() {
                    cb.ret = CbRet::Unit;
                } else {
                    cb.target = *rng.pick(&units);
                }
            }
        }
    }
    if !any {
        if let Some(p) = def.pats.iter_mut().find(|p| p.kind != PatKind::Skip) {
            p.cb = Some(Cb { ret: CbRet::Bool, inline: false, bump: false, salt: 7, target: p.variant });
            let v = p.variant;
            def.variants[v] = VarKind::Unit;
        }
    }
    def.normalize();
    def
}
