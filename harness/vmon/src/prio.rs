//! C09 oracle (a): structural recursion over the regex *AST* (regex_syntax::ast — not the HIR
//! that logos uses): literal = 1, class/dot = 1, concat = sum, alternation = min,
//! repetition = min-count x sub, assertion/flags = 0.

use regex_syntax::ast::{self, Ast};

#[derive(Clone, Copy, Debug, Default)]
pub struct AstInfo {
    pub units: usize,
    /// like `units`, but maximal runs of byte literals (non-Unicode patterns) that form valid UTF-8 are
    /// counted in characters instead of bytes (the two defensible readings of "literal characters")
    pub units_valid_runs_as_chars: usize,
    pub has_assertion: bool,
    /// contains a construct whose "character" count is ambiguous (byte escapes >= 0x80 outside
    /// unicode mode, empty classes)
    pub fuzzy: bool,
    /// contains a bracketed class built with set operations (`&&`, `--`, `~~`), which may denote the empty set
    pub maybe_empty_class: bool,
}

pub fn ast_info(pattern: &str) -> Result<AstInfo, String> {
    let ast = ast::parse::Parser::new().parse(pattern).map_err(|e| e.to_string())?;
    let mut info = AstInfo::default();
    info.units = walk(&ast, &mut info);
    let mut scratch = AstInfo::default();
    info.units_valid_runs_as_chars = walk_runs(&ast, &mut scratch);
    Ok(info)
}

fn walk(ast: &Ast, info: &mut AstInfo) -> usize {
    match ast {
        Ast::Empty(_) => 0,
        Ast::Flags(f) => {
            if flags_touch_unicode(&f.flags) {
                info.fuzzy = true;
            }
            0
        }
        Ast::Literal(lit) => {
            if matches!(lit.kind, ast::LiteralKind::HexFixed(ast::HexLiteralKind::X)) && (lit.c as u32) >= 0x80 {
                info.fuzzy = true;
            }
            if matches!(lit.kind, ast::LiteralKind::HexBrace(ast::HexLiteralKind::X)) && (lit.c as u32) >= 0x80 && (lit.c as u32) <= 0xFF {
                info.fuzzy = true;
            }
            1
        }
        Ast::Dot(_) => 1,
        Ast::Assertion(_) => {
            info.has_assertion = true;
            0
        }
        Ast::ClassUnicode(_) | Ast::ClassPerl(_) => 1,
        Ast::ClassBracketed(c) => {
            // intersections / differences may produce an empty class: the structural rule still counts it as one
            // class, but no match traverses it, so the semantic reading (shortest match) can be larger
            if !matches!(c.kind, ast::ClassSet::Item(_)) {
                info.maybe_empty_class = true;
            }
            1
        }
        Ast::Repetition(rep) => {
            let min = match &rep.op.kind {
                ast::RepetitionKind::ZeroOrOne | ast::RepetitionKind::ZeroOrMore => 0,
                ast::RepetitionKind::OneOrMore => 1,
                ast::RepetitionKind::Range(r) => match r {
                    ast::RepetitionRange::Exactly(n) => *n as usize,
                    ast::RepetitionRange::AtLeast(n) => *n as usize,
                    ast::RepetitionRange::Bounded(m, _) => *m as usize,
                },
            };
            let sub = walk(&rep.ast, info);
            min * sub
        }
        Ast::Group(g) => {
            if let ast::GroupKind::NonCapturing(flags) = &g.kind {
                if flags_touch_unicode(flags) {
                    info.fuzzy = true;
                }
            }
            walk(&g.ast, info)
        }
        Ast::Alternation(alt) => alt.asts.iter().map(|a| walk(a, info)).min().unwrap_or(0),
        Ast::Concat(cat) => cat.asts.iter().map(|a| walk(a, info)).sum(),
    }
}

fn flags_touch_unicode(flags: &ast::Flags) -> bool {
    flags.items.iter().any(|it| matches!(it.kind, ast::FlagsItemKind::Flag(ast::Flag::Unicode)))
}

fn literal_byte(lit: &ast::Literal) -> Option<u8> {
    // in a non-Unicode pattern a literal <= 0xFF written as \xNN (or an ASCII char) denotes one byte
    if (lit.c as u32) <= 0xFF {
        match lit.kind {
            ast::LiteralKind::HexFixed(ast::HexLiteralKind::X) | ast::LiteralKind::HexBrace(ast::HexLiteralKind::X) => Some(lit.c as u32 as u8),
            _ if (lit.c as u32) < 0x80 => Some(lit.c as u8),
            _ => None,
        }
    } else {
        None
    }
}

/// Same recursion as `walk`, except that inside a concatenation maximal runs of byte literals are
/// counted as characters when the run is valid UTF-8 (and as bytes otherwise).
fn walk_runs(ast: &Ast, info: &mut AstInfo) -> usize {
    match ast {
        Ast::Concat(cat) => {
            let mut total = 0;
            let mut run: Vec<u8> = vec![];
            let mut run_items = 0usize;
            let flush = |run: &mut Vec<u8>, run_items: &mut usize| -> usize {
                let n = if run.is_empty() {
                    0
                } else {
                    match std::str::from_utf8(run) {
                        Ok(s) => s.chars().count(),
                        Err(_) => *run_items,
                    }
                };
                run.clear();
                *run_items = 0;
                n
            };
            for a in &cat.asts {
                if let Ast::Literal(l) = a {
                    if let Some(b) = literal_byte(l) {
                        run.push(b);
                        run_items += 1;
                        continue;
                    }
                }
                total += flush(&mut run, &mut run_items);
                total += walk_runs(a, info);
            }
            total += flush(&mut run, &mut run_items);
            total
        }
        Ast::Repetition(rep) => {
            let min = match &rep.op.kind {
                ast::RepetitionKind::ZeroOrOne | ast::RepetitionKind::ZeroOrMore => 0,
                ast::RepetitionKind::OneOrMore => 1,
                ast::RepetitionKind::Range(r) => match r {
                    ast::RepetitionRange::Exactly(n) => *n as usize,
                    ast::RepetitionRange::AtLeast(n) => *n as usize,
                    ast::RepetitionRange::Bounded(m, _) => *m as usize,
                },
            };
            min * walk_runs(&rep.ast, info)
        }
        Ast::Group(g) => walk_runs(&g.ast, info),
        Ast::Alternation(alt) => alt.asts.iter().map(|a| walk_runs(a, info)).min().unwrap_or(0),
        other => walk(other, info),
    }
}
