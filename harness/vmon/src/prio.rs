//! C09 oracle (a): structural recursion over the regex *AST* (regex_syntax::ast — not the HIR
//! that logos uses): literal = 1, class/dot = 1, concat = sum, alternation = min,
//! repetition = min-count x sub, assertion/flags = 0.

use regex_syntax::ast::{self, Ast};

#[derive(Clone, Copy, Debug, Default)]
pub struct AstInfo {
    pub units: usize,
    pub has_assertion: bool,
    /// contains a construct whose "character" count is ambiguous (byte escapes >= 0x80 outside
    /// unicode mode, empty classes)
    pub fuzzy: bool,
}

pub fn ast_info(pattern: &str) -> Result<AstInfo, String> {
    let ast = ast::parse::Parser::new().parse(pattern).map_err(|e| e.to_string())?;
    let mut info = AstInfo::default();
    info.units = walk(&ast, &mut info);
    Ok(info)
}

fn walk(ast: &Ast, info: &mut AstInfo) -> usize {
    match ast {
        Ast::Empty(_) => 0,
        Ast::Flags(f) => {
            if flags_touch_unicode(&f.flags) {
                info.fuzzy = true;
            }
            0
        }
        Ast::Literal(lit) => {
            if matches!(lit.kind, ast::LiteralKind::HexFixed(ast::HexLiteralKind::X)) && (lit.c as u32) >= 0x80 {
                info.fuzzy = true;
            }
            if matches!(lit.kind, ast::LiteralKind::HexBrace(ast::HexLiteralKind::X)) && (lit.c as u32) >= 0x80 && (lit.c as u32) <= 0xFF {
                info.fuzzy = true;
            }
            1
        }
        Ast::Dot(_) => 1,
        Ast::Assertion(_) => {
            info.has_assertion = true;
            0
        }
        Ast::ClassUnicode(_) | Ast::ClassPerl(_) => 1,
        Ast::ClassBracketed(c) => {
            // intersections / differences may produce an empty class: mark fuzzy
            if !matches!(c.kind, ast::ClassSet::Item(_)) {
                info.fuzzy = true;
            }
            1
        }
        Ast::Repetition(rep) => {
            let min = match &rep.op.kind {
                ast::RepetitionKind::ZeroOrOne | ast::RepetitionKind::ZeroOrMore => 0,
                ast::RepetitionKind::OneOrMore => 1,
                ast::RepetitionKind::Range(r) => match r {
                    ast::RepetitionRange::Exactly(n) => *n as usize,
                    ast::RepetitionRange::AtLeast(n) => *n as usize,
                    ast::RepetitionRange::Bounded(m, _) => *m as usize,
                },
            };
            let sub = walk(&rep.ast, info);
            min * sub
        }
        Ast::Group(g) => {
            if let ast::GroupKind::NonCapturing(flags) = &g.kind {
                if flags_touch_unicode(flags) {
                    info.fuzzy = true;
                }
            }
            walk(&g.ast, info)
        }
        Ast::Alternation(alt) => alt.asts.iter().map(|a| walk(a, info)).min().unwrap_or(0),
        Ast::Concat(cat) => cat.asts.iter().map(|a| walk(a, info)).sum(),
    }
}

fn flags_touch_unicode(flags: &ast::Flags) -> bool {
    flags.items.iter().any(|it| matches!(it.kind, ast::FlagsItemKind::Flag(ast::Flag::Unicode)))
}
