//! Random regex ASTs (my own tiny AST, rendered to regex text).

use crate::rng::Rng;

#[derive(Clone, Debug)]
pub enum Re {
    /// literal characters (escaped when rendered)
    Lit(String),
    /// raw class text such as `[a-c]`, `\d`, `\p{Greek}`, `.`
    Class(String),
    Cat(Vec<Re>),
    Alt(Vec<Re>),
    /// sub, min, max (None = unbounded), lazy
    Rep(Box<Re>, u32, Option<u32>, bool),
    /// non-capturing group with flags, e.g. "i", "s", "-u", or "" for plain `(?:..)`; None => capturing
    Group(Option<String>, Box<Re>),
    /// raw assertion text: `$`, `\b`, `(?-u:\b)`, ...
    Look(String),
    /// raw text (subpattern reference etc.)
    Raw(String),
}

pub fn escape_char(c: char, out: &mut String) {
    match c {
        '\\' | '.' | '+' | '*' | '?' | '(' | ')' | '|' | '[' | ']' | '{' | '}' | '^' | '$' | '#' | '&' | '-' | '~' => {
            out.push('\\');
            out.push(c);
        }
        '\n' => out.push_str("\\n"),
        '\t' => out.push_str("\\t"),
        '\r' => out.push_str("\\r"),
        ' ' => out.push_str("\\x20"),
        _ => out.push(c),
    }
}

impl Re {
    pub fn render(&self) -> String {
        let mut s = String::new();
        self.render_into(&mut s, 0);
        s
    }
    /// prec: 0 = alternation context, 1 = concatenation context, 2 = repetition operand
    fn render_into(&self, out: &mut String, prec: u8) {
        match self {
            Re::Lit(t) => {
                let n = t.chars().count();
                let wrap = prec >= 2 && n != 1;
                if wrap {
                    out.push_str("(?:");
                }
                for c in t.chars() {
                    escape_char(c, out);
                }
                if wrap {
                    out.push(')');
                }
            }
            Re::Class(t) | Re::Look(t) | Re::Raw(t) => {
                let wrap = prec >= 2 && matches!(self, Re::Look(_) | Re::Raw(_));
                if wrap {
                    out.push_str("(?:");
                }
                out.push_str(t);
                if wrap {
                    out.push(')');
                }
            }
            Re::Cat(xs) => {
                let wrap = prec >= 2;
                if wrap {
                    out.push_str("(?:");
                }
                for x in xs {
                    x.render_into(out, 1);
                }
                if wrap {
                    out.push(')');
                }
            }
            Re::Alt(xs) => {
                let wrap = prec >= 1;
                if wrap {
                    out.push_str("(?:");
                }
                for (i, x) in xs.iter().enumerate() {
                    if i > 0 {
                        out.push('|');
                    }
                    x.render_into(out, 0);
                }
                if wrap {
                    out.push(')');
                }
            }
            Re::Rep(sub, min, max, lazy) => {
                let wrap = prec >= 2;
                if wrap {
                    out.push_str("(?:");
                }
                sub.render_into(out, 2);
                match (min, max) {
                    (0, None) => out.push('*'),
                    (1, None) => out.push('+'),
                    (0, Some(1)) => out.push('?'),
                    (m, None) => out.push_str(&format!("{{{m},}}")),
                    (m, Some(n)) if m == n => out.push_str(&format!("{{{m}}}")),
                    (m, Some(n)) => out.push_str(&format!("{{{m},{n}}}")),
                }
                if *lazy {
                    out.push('?');
                }
                if wrap {
                    out.push(')');
                }
            }
            Re::Group(flags, sub) => {
                match flags {
                    None => out.push('('),
                    Some(f) if f.is_empty() => out.push_str("(?:"),
                    Some(f) => {
                        out.push_str("(?");
                        out.push_str(f);
                        out.push(':');
                    }
                }
                sub.render_into(out, 0);
                out.push(')');
            }
        }
    }

    /// Structural minimal "characters + classes" count (my own third computation for C09).
    pub fn min_units(&self) -> Option<usize> {
        match self {
            Re::Lit(t) => Some(t.chars().count()),
            Re::Class(_) => Some(1),
            Re::Look(_) => Some(0),
            Re::Raw(_) => None,
            Re::Cat(xs) => xs.iter().map(|x| x.min_units()).sum(),
            Re::Alt(xs) => xs.iter().map(|x| x.min_units()).collect::<Option<Vec<_>>>().map(|v| v.into_iter().min().unwrap_or(0)),
            Re::Rep(sub, min, _, _) => sub.min_units().map(|u| u * (*min as usize)),
            Re::Group(_, sub) => sub.min_units(),
        }
    }
}

pub const ALPHA_ASCII: &[char] = &['a', 'b', 'c', 'x', '0', '1', '-', '_', ' ', '\n', 'K', 'k', 's', 'A', 'z', '9', '.', '+'];
pub const ALPHA_UNI: &[char] = &['é', 'ü', 'λ', '€', '😀', '\u{212A}', 'ſ', 'σ', 'ς', 'Σ', 'ß', 'İ', 'ı', '\u{7FF}', '\u{800}', '\u{FFFF}', '\u{10000}', '\u{10FFFF}', '\u{80}'];

#[derive(Clone, Debug)]
pub struct ReCfg {
    pub unicode_chars: bool,
    pub big_classes: bool,
    pub bytes_mode: bool,
    pub looks: bool,
    pub flags: bool,
    pub max_depth: u32,
    pub lazy: bool,
    pub greedy_dot: bool,
}

impl ReCfg {
    pub fn basic() -> ReCfg {
        ReCfg { unicode_chars: false, big_classes: false, bytes_mode: false, looks: false, flags: false, max_depth: 3, lazy: true, greedy_dot: false }
    }
}

pub fn rand_char(rng: &mut Rng, cfg: &ReCfg) -> char {
    if cfg.unicode_chars && rng.chance(1, 3) {
        *rng.pick(ALPHA_UNI)
    } else {
        *rng.pick(ALPHA_ASCII)
    }
}

fn class_item_char(c: char, out: &mut String) {
    match c {
        '\\' | ']' | '[' | '^' | '-' | '&' | '~' => {
            out.push('\\');
            out.push(c);
        }
        '\n' => out.push_str("\\n"),
        ' ' => out.push_str("\\x20"),
        _ => out.push(c),
    }
}

pub fn rand_class(rng: &mut Rng, cfg: &ReCfg) -> Re {
    let roll = rng.below(100);
    if roll < 8 {
        return Re::Class(rng.pick(&["\\d", "[0-9]", "[a-z]", "[a-zA-Z_]", "[a-c]", "[^a]", "[^\\n]", "[0-9a-f]"]).to_string());
    }
    if roll < 12 && !cfg.greedy_dot {
        // dot, never directly repeated unboundedly by callers unless greedy_dot
        return Re::Class(".".into());
    }
    if cfg.big_classes && roll < 20 {
        return Re::Class(rng.pick(&["\\w", "\\s", "\\p{Greek}", "\\pL", "\\p{Lu}", "[^\\x00-\\x7F]", "\\P{Greek}", "[\\p{Greek}&&\\p{Lu}]", "\\S"]).to_string());
    }
    if cfg.bytes_mode && roll < 35 {
        return Re::Class(rng.pick(&["(?-u:[\\x80-\\xFF])", "(?-u:[^a])", "(?-u:.)", "(?-u:[\\x00-\\x7F])", "(?s-u:.)", "(?-u:[\\xC0-\\xDF][\\x80-\\xBF])", "(?-u:\\xFF)", "(?-u:[\\xE0-\\xEF])", "(?-u:\\W)", "(?-u:[^\\n])"]).to_string());
    }
    // explicit class
    let mut s = String::from("[");
    if rng.chance(1, 5) {
        s.push('^');
    }
    let n = rng.range(1, 3);
    for _ in 0..n {
        let a = rand_char(rng, cfg);
        if rng.chance(1, 2) {
            let span = rng.range(1, 40) as u32;
            let mut b = char::from_u32(a as u32 + span).unwrap_or(a);
            if (b as u32) < (a as u32) {
                b = a;
            }
            class_item_char(a, &mut s);
            s.push('-');
            class_item_char(b, &mut s);
        } else {
            class_item_char(a, &mut s);
        }
    }
    s.push(']');
    Re::Class(s)
}

pub fn rand_look(rng: &mut Rng) -> Re {
    Re::Look(rng.pick(&["$", "(?-u:\\b)", "(?-u:\\B)", "\\z", "(?m:$)", "(?-u:\\b{end})", "(?-u:\\b{end-half})", "(?-u:\\b{start-half})"]).to_string())
}

pub fn rand_re(rng: &mut Rng, cfg: &ReCfg, depth: u32) -> Re {
    let roll = rng.below(100);
    if depth >= cfg.max_depth || roll < 30 {
        // leaf
        return if rng.chance(3, 5) {
            let n = rng.range(1, 3);
            Re::Lit((0..n).map(|_| rand_char(rng, cfg)).collect())
        } else {
            rand_class(rng, cfg)
        };
    }
    if roll < 55 {
        let n = rng.range(2, 3);
        let mut xs: Vec<Re> = (0..n).map(|_| rand_re(rng, cfg, depth + 1)).collect();
        if cfg.looks && rng.chance(1, 4) {
            let pos = rng.range(1, xs.len());
            xs.insert(pos, rand_look(rng));
        }
        return Re::Cat(xs);
    }
    if roll < 72 {
        let n = rng.range(2, 3);
        return Re::Alt((0..n).map(|_| rand_re(rng, cfg, depth + 1)).collect());
    }
    if roll < 92 {
        let mut sub = rand_re(rng, cfg, depth + 1);
        let (min, max) = match rng.below(8) {
            0 => (0, None),
            1 | 2 => (1, None),
            3 => (0, Some(1)),
            4 => (2, Some(2)),
            5 => (1, Some(3)),
            6 => (2, None),
            _ => (0, Some(2)),
        };
        if max.is_none() && !cfg.greedy_dot {
            // never repeat a dot-like class unboundedly (logos rejects without allow_greedy)
            if let Re::Class(t) = &sub {
                if t == "." || t == "[^\\n]" || t.contains("(?-u:.)") || t.contains("(?s-u:.)") || t.contains("(?-u:[^\\n])") {
                    sub = Re::Class("[a-c]".into());
                }
            }
        }
        let lazy = cfg.lazy && rng.chance(1, 6);
        return Re::Rep(Box::new(sub), min, max, lazy);
    }
    let sub = rand_re(rng, cfg, depth + 1);
    if cfg.flags && rng.chance(1, 2) {
        let f = rng.pick(&["i", "s", "m", "x", "i-u", "U"]).to_string();
        if f == "i-u" && !cfg.bytes_mode {
            return Re::Group(Some("i".into()), Box::new(sub));
        }
        Re::Group(Some(f), Box::new(sub))
    } else if rng.chance(1, 2) {
        Re::Group(None, Box::new(sub))
    } else {
        Re::Group(Some(String::new()), Box::new(sub))
    }
}
