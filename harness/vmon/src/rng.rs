//! Deterministic PRNG (splitmix64 seeding + xorshift64*), no dependencies.

#[derive(Clone, Debug)]
pub struct Rng(u64);

pub fn splitmix(mut x: u64) -> u64 {
    x = x.wrapping_add(0x9E3779B97F4A7C15);
    let mut z = x;
    z = (z ^ (z >> 30)).wrapping_mul(0xBF58476D1CE4E5B9);
    z = (z ^ (z >> 27)).wrapping_mul(0x94D049BB133111EB);
    z ^ (z >> 31)
}

impl Rng {
    pub fn new(seed: u64) -> Self {
        let s = splitmix(seed ^ 0xD1B54A32D192ED03);
        Rng(if s == 0 { 0x1234_5678_9ABC_DEF1 } else { s })
    }
    /// Independent stream derived from (seed, stream id).
    pub fn derive(seed: u64, stream: u64) -> Self {
        Rng::new(splitmix(seed).wrapping_add(splitmix(stream.wrapping_mul(0xA24BAED4963EE407))))
    }
    pub fn next_u64(&mut self) -> u64 {
        let mut x = self.0;
        x ^= x >> 12;
        x ^= x << 25;
        x ^= x >> 27;
        self.0 = x;
        x.wrapping_mul(0x2545F4914F6CDD1D)
    }
    /// Uniform in 0..n (n > 0).
    pub fn below(&mut self, n: usize) -> usize {
        debug_assert!(n > 0);
        ((self.next_u64() >> 11) % (n as u64)) as usize
    }
    pub fn range(&mut self, lo: usize, hi_incl: usize) -> usize {
        lo + self.below(hi_incl - lo + 1)
    }
    pub fn chance(&mut self, num: usize, den: usize) -> bool {
        self.below(den) < num
    }
    pub fn pick<'a, T>(&mut self, xs: &'a [T]) -> &'a T {
        &xs[self.below(xs.len())]
    }
    pub fn pick_str(&mut self, xs: &[&'static str]) -> &'static str {
        xs[self.below(xs.len())]
    }
    pub fn shuffle<T>(&mut self, xs: &mut [T]) {
        for i in (1..xs.len()).rev() {
            let j = self.below(i + 1);
            xs.swap(i, j);
        }
    }
    pub fn byte(&mut self) -> u8 {
        (self.next_u64() >> 24) as u8
    }
}

/// FNV-1a 64 over bytes; used for stable observation hashes.
pub fn fnv1a(data: &[u8]) -> u64 {
    let mut h: u64 = 0xcbf29ce484222325;
    for &b in data {
        h ^= b as u64;
        h = h.wrapping_mul(0x100000001b3);
    }
    h
}

pub fn fnv_mix(h: u64, v: u64) -> u64 {
    let mut h = h;
    for i in 0..8 {
        h ^= (v >> (8 * i)) & 0xff;
        h = h.wrapping_mul(0x100000001b3);
    }
    h
}
