//! vmon: monitors, reference oracle and workload generators for the logos verification harness.
pub mod gen;
pub mod graph;
pub mod prio;
pub mod product;
pub mod refa;
pub mod regen;
pub mod rng;
pub mod spec;
pub mod utf8;

pub use serde_json;
