//! Product check: captured logos graph versus the reference components, over *all* inputs
//! (all valid-UTF-8 prefixes in str mode). Rules of DESIGN.md section 3.3.

use std::collections::HashMap;

use crate::graph::{GraphData, NONE};
use crate::refa::{CState, Reference, EOI};
use crate::utf8;

#[derive(Clone, Debug)]
pub struct Finding {
    pub rule: &'static str,
    pub prop: &'static str,
    /// bytes consumed from a token start to reach the offending situation
    pub path: Vec<u8>,
    /// the unit at which the rule fired (byte or 256 = end of input), if the rule is about a unit
    pub unit: Option<usize>,
    pub detail: String,
}

#[derive(Clone, Debug, Default)]
pub struct ProductStats {
    pub tuples: usize,
    pub transitions: usize,
    pub capped: bool,
    /// tuples in which two or more top-priority components report simultaneously (reference ambiguity)
    pub ambiguous_groups: Vec<Vec<usize>>,
    /// partial-lexing rules: buffer-end points evaluated / of which the pending item was determined
    pub partial_points: usize,
    pub partial_determined: usize,
}

struct Node {
    /// kind of the best match recorded so far in this attempt (0 none, 1 skip, 2 token); tracked only for the partial rules
    best: u8,
    g: u32,
    prev_early: u32,
    u8s: u8,
    r: Vec<CState>,
    parent: u32,
    via: u8,
}

fn path_of(nodes: &[Node], mut idx: usize) -> Vec<u8> {
    let mut p = vec![];
    while nodes[idx].parent != u32::MAX {
        p.push(nodes[idx].via);
        idx = nodes[idx].parent as usize;
    }
    p.reverse();
    p
}

pub fn leaf_opt(x: Option<usize>) -> u32 {
    x.map(|v| v as u32).unwrap_or(NONE)
}

/// Run the product exploration. `prio` = priorities used for winner selection (captured ones).
pub fn check(g: &GraphData, reference: &Reference, prio: &[usize], cap: usize) -> (Vec<Finding>, ProductStats) {
    check_with(g, reference, prio, cap, None)
}

/// As `check`; with `partial = Some(has_look_around)` the partial-lexing rules (C07) are evaluated at every
/// reachable tuple as well: the generated code, when the buffer of a partial lexer ends in graph state `g`,
/// returns None ("need more input") iff `g` has any outgoing transition (byte or end-of-input) and commits
/// what it has recorded otherwise. Against the reference: the pending item is *determined* at tuple `r` iff no
/// feasible next byte keeps a longer match possible and the match revealed by the next unit is the same for
/// every feasible next unit (end of input included).
///   partial-commit-undetermined: `g` has no transition although the item is not determined;
///   partial-not-eager: the item is determined but `g` still has transitions (definitions without look-around);
///   with look-around one byte of slack: determined at `r`, edge on x to `t`, and `t` still has transitions.
pub fn check_with(g: &GraphData, reference: &Reference, prio: &[usize], cap: usize, partial: Option<bool>) -> (Vec<Finding>, ProductStats) {
    let mut findings: Vec<Finding> = vec![];
    let mut stats = ProductStats::default();
    let dense = g.dense();
    let add = |findings: &mut Vec<Finding>, f: Finding| {
        // keep the first finding per rule (shortest path first because BFS) plus a few more
        if findings.iter().filter(|x| x.rule == f.rule).count() < 3 {
            findings.push(f);
        }
    };

    if let Some((s, b)) = dense.overlap {
        add(&mut findings, Finding { rule: "struct-overlap", prop: "C03", path: vec![], unit: Some(b as usize),
            detail: format!("state {s} has two byte classes containing byte {b:#04x}") });
    }
    if g.states.is_empty() {
        return (findings, stats);
    }
    let root = &g.states[g.root];
    if root.accept.is_some() || root.early.is_some() {
        add(&mut findings, Finding { rule: "struct-root-records", prop: "C03", path: vec![], unit: None,
            detail: "root state records a match (empty token)".into() });
    }
    for (si, s) in g.states.iter().enumerate() {
        if s.normal.iter().filter(|(_, t)| *t == si).count() > 1 {
            add(&mut findings, Finding { rule: "struct-two-self-edges", prop: "C03", path: vec![], unit: None,
                detail: format!("state {si} has more than one self edge") });
        }
    }

    let mut nodes: Vec<Node> = vec![];
    let mut index: HashMap<(u32, u32, u8, u8, Vec<CState>), u32> = HashMap::new();
    let r0 = reference.start();
    nodes.push(Node { best: 0, g: g.root as u32, prev_early: NONE, u8s: utf8::U_START, r: r0.clone(), parent: u32::MAX, via: 0 });
    index.insert((g.root as u32, NONE, utf8::U_START, 0, r0), 0);

    let winner = |r: &[CState], stats: &mut ProductStats| -> u32 {
        match reference.winner(r, prio) {
            Ok(w) => leaf_opt(w),
            Err(group) => {
                if !stats.ambiguous_groups.contains(&group) {
                    stats.ambiguous_groups.push(group);
                }
                NONE - 1 // "ambiguous" marker: never equals a real leaf or NONE
            }
        }
    };
    const AMBIG: u32 = NONE - 1;

    let mut tmp: Vec<CState> = Vec::with_capacity(reference.comps.len());
    let mut i = 0usize;
    while i < nodes.len() {
        if nodes.len() > cap {
            stats.capped = true;
            break;
        }
        let (gi, prev_early, u8s, r) = {
            let n = &nodes[i];
            (n.g as usize, n.prev_early, n.u8s, n.r.clone())
        };
        let gs = &g.states[gi];
        // best match of the reference so far, this node's own report (ending before the last byte) included
        let mut best = nodes[i].best;
        if partial.is_some() && nodes[i].parent != u32::MAX {
            let w = winner(&r, &mut stats);
            if w != AMBIG && w != NONE {
                best = if g.is_skip(w as usize) { 1 } else { 2 };
            }
        }
        let g_accept = leaf_opt(gs.accept);
        let g_early = leaf_opt(gs.early);

        // ---- rule 1: late accept (only meaningful for non-initial nodes; at the initial node r = start)
        if nodes[i].parent != u32::MAX {
            let w = winner(&r, &mut stats);
            if w != AMBIG {
                if g_accept != NONE && w != g_accept {
                    add(&mut findings, Finding { rule: "late-accept-wrong", prop: "C01", path: path_of(&nodes, i), unit: None,
                        detail: format!("graph state {gi} records leaf {g_accept} for the match ending before the last byte, reference winner is {}", show(w)) });
                }
                if w != NONE && g_accept != w && prev_early != w {
                    add(&mut findings, Finding { rule: "match-not-recorded", prop: "C01", path: path_of(&nodes, i), unit: None,
                        detail: format!("reference reports leaf {w} ending before the last byte; graph state {gi} records {} (late) and its predecessor {} (early)", show(g_accept), show(prev_early)) });
                }
            }
        }

        // ---- partial-lexing rules (C07): the buffer of a partial lexer ends exactly here
        if let (Some(has_look), true) = (partial, nodes[i].parent != u32::MAX && (!g.utf8 || u8s == utf8::U_START)) {
            let has_edges = |st: usize| !g.states[st].normal.is_empty() || g.states[st].eoi.is_some();
            let mut longer = false;
            let mut ambiguous = false;
            let mut w_all: Option<u32> = None;
            let mut w_same = true;
            for unit in 0..=256usize {
                let feasible = if unit == EOI { true } else if g.utf8 { utf8::step(u8s, unit as u8) != utf8::U_ERR } else { true };
                if !feasible {
                    continue;
                }
                reference.step(&r, unit, &mut tmp);
                if unit != EOI && reference.crp(&tmp) {
                    longer = true;
                    break;
                }
                let w = winner(&tmp, &mut stats);
                if w == AMBIG {
                    ambiguous = true;
                    break;
                }
                match w_all {
                    None => w_all = Some(w),
                    Some(prev) => {
                        if prev != w {
                            w_same = false;
                        }
                    }
                }
            }
            if !ambiguous {
                stats.partial_points += 1;
                let determined = !longer && w_same;
                if determined {
                    stats.partial_determined += 1;
                }
                // the pending item: the match the next unit reveals, else the best recorded so far, else an error.
                // Skips are not items: the property demands eagerness of items only.
                let pending_is_skip = match w_all {
                    Some(w) if w != NONE => g.is_skip(w as usize),
                    _ => best == 1,
                };
                if !has_edges(gi) && !determined {
                    add(&mut findings, Finding { rule: "partial-commit-undetermined", prop: "C07", path: path_of(&nodes, i), unit: None,
                        detail: format!("graph state {gi} has no transition left, so a partial lexer whose buffer ends here commits the pending item, but the reference says a continuation can still change it ({})",
                            if longer { "a longer match is possible" } else { "the match ending here depends on the next unit" }) });
                }
                if determined && has_edges(gi) && !has_look && !pending_is_skip {
                    add(&mut findings, Finding { rule: "partial-not-eager", prop: "C07", path: path_of(&nodes, i), unit: None,
                        detail: format!("the pending item is determined by this prefix whatever follows, but graph state {gi} still has transitions, so a partial lexer whose buffer ends here returns None instead of the item") });
                }
                if determined && has_look && !pending_is_skip {
                    // one unit of slack: after any further single-byte character the item has to be out
                    for x in 0..256usize {
                        if g.utf8 && x >= 0x80 {
                            break;
                        }
                        let t = dense.table[gi][x];
                        if t != NONE && has_edges(t as usize) {
                            add(&mut findings, Finding { rule: "partial-not-eager-one-byte-later", prop: "C07", path: path_of(&nodes, i), unit: Some(x),
                                detail: format!("the pending item is determined by this prefix; after one more byte {x:#04x} the partial lexer is in graph state {t}, which still has transitions, and returns None again") });
                            break;
                        }
                    }
                }
            }
        }

        // ---- units
        for unit in 0..=256usize {
            let feasible = if unit == EOI {
                !g.utf8 || u8s == utf8::U_START
            } else if g.utf8 {
                utf8::step(u8s, unit as u8) != utf8::U_ERR
            } else {
                true
            };
            if !feasible {
                continue;
            }
            stats.transitions += 1;
            reference.step(&r, unit, &mut tmp);
            let w2 = winner(&tmp, &mut stats);
            let crp2 = reference.crp(&tmp);

            // rule 2: early accept must hold for every feasible next unit
            if g_early != NONE && w2 != AMBIG && w2 != g_early {
                add(&mut findings, Finding { rule: "early-accept-wrong", prop: "C01", path: path_of(&nodes, i), unit: Some(unit),
                    detail: format!("graph state {gi} records leaf {g_early} early, but with next unit {} the reference winner at this end is {}", unit_name(unit), show(w2)) });
            }

            if unit == EOI {
                match gs.eoi {
                    Some(t) => {
                        let ts = &g.states[t];
                        if w2 == NONE {
                            add(&mut findings, Finding { rule: "eoi-edge-without-match", prop: "C02", path: path_of(&nodes, i), unit: Some(unit),
                                detail: format!("graph state {gi} has an end-of-input edge but no pattern matches ending at end of input") });
                        } else if w2 != AMBIG && leaf_opt(ts.accept) != w2 && !(ts.accept.is_none() && g_early == w2) {
                            add(&mut findings, Finding { rule: "eoi-target-wrong", prop: "C01", path: path_of(&nodes, i), unit: Some(unit),
                                detail: format!("end-of-input edge of state {gi} leads to state {t} recording {:?}; reference winner {}", ts.accept, show(w2)) });
                        }
                        if ts.early.is_some() {
                            add(&mut findings, Finding { rule: "eoi-target-early", prop: "C03", path: path_of(&nodes, i), unit: Some(unit),
                                detail: format!("end-of-input target state {t} has an early accept (would set the token end beyond the source)") });
                        }
                        if ts.eoi.is_some() {
                            add(&mut findings, Finding { rule: "eoi-target-has-eoi", prop: "C03", path: path_of(&nodes, i), unit: Some(unit),
                                detail: format!("end-of-input target state {t} has its own end-of-input edge") });
                        }
                    }
                    None => {
                        if w2 != NONE && w2 != AMBIG && g_early != w2 {
                            add(&mut findings, Finding { rule: "eoi-match-lost", prop: "C01", path: path_of(&nodes, i), unit: Some(unit),
                                detail: format!("reference reports leaf {w2} at end of input; graph state {gi} has no end-of-input edge and early={}", show(g_early)) });
                        }
                    }
                }
                continue;
            }

            let t = dense.table[gi][unit];
            if t == NONE {
                // missing edge
                if crp2 {
                    add(&mut findings, Finding { rule: "edge-missing-longer-match-lost", prop: "C01", path: path_of(&nodes, i), unit: Some(unit),
                        detail: format!("graph state {gi} has no edge for byte {unit:#04x} although a pattern can still match a longer text") });
                } else if w2 != NONE && w2 != AMBIG && g_early != w2 {
                    add(&mut findings, Finding { rule: "edge-missing-pending-match-lost", prop: "C01", path: path_of(&nodes, i), unit: Some(unit),
                        detail: format!("byte {unit:#04x} reveals a match of leaf {w2} ending before it, but graph state {gi} has no edge and early={}", show(g_early)) });
                }
            } else {
                if !crp2 && w2 == NONE {
                    add(&mut findings, Finding { rule: "edge-into-dead-end", prop: "C02", path: path_of(&nodes, i), unit: Some(unit),
                        detail: format!("graph state {gi} consumes byte {unit:#04x} into state {t} although no pattern can match any extension") });
                }
                let u8n = if g.utf8 { utf8::step(u8s, unit as u8) } else { utf8::U_START };
                let key = (t, g_early, u8n, best, tmp.clone());
                if !index.contains_key(&key) {
                    let idx = nodes.len() as u32;
                    index.insert(key, idx);
                    nodes.push(Node { best, g: t, prev_early: g_early, u8s: u8n, r: tmp.clone(), parent: i as u32, via: unit as u8 });
                }
            }
        }
        i += 1;
    }
    stats.tuples = nodes.len();
    (findings, stats)
}

fn show(x: u32) -> String {
    if x == NONE {
        "none".into()
    } else if x == NONE - 1 {
        "ambiguous".into()
    } else {
        format!("leaf {x}")
    }
}

fn unit_name(u: usize) -> String {
    if u == EOI {
        "end-of-input".into()
    } else {
        format!("{u:#04x}")
    }
}

/// Exhaustive search of the reference product alone (no logos graph): which tuples are reachable
/// in which two or more components of equal top priority report simultaneously. Returns the
/// conflict groups with a witness string each (the fully matched text).
pub fn reference_ambiguities(reference: &Reference, prio: &[usize], cap: usize) -> (Vec<(Vec<usize>, Vec<u8>)>, usize, bool) {
    let mut groups: Vec<(Vec<usize>, Vec<u8>)> = vec![];
    let mut nodes: Vec<(Vec<CState>, u32, u16)> = vec![];
    let mut index: HashMap<Vec<CState>, u32> = HashMap::new();
    let r0 = reference.start();
    index.insert(r0.clone(), 0);
    nodes.push((r0, u32::MAX, 0));
    let mut tmp = vec![];
    let mut i = 0;
    let mut capped = false;
    while i < nodes.len() {
        if nodes.len() > cap {
            capped = true;
            break;
        }
        let r = nodes[i].0.clone();
        for unit in 0..=256usize {
            reference.step(&r, unit, &mut tmp);
            if !reference.crp(&tmp) && !reference.any_reports(&tmp) {
                continue;
            }
            if let Err(group) = reference.winner(&tmp, prio) {
                if !groups.iter().any(|(g, _)| *g == group) {
                    // witness: path to node i (the unit only reveals the match)
                    let mut p = vec![];
                    let mut cur = i;
                    while nodes[cur].1 != u32::MAX {
                        p.push(nodes[cur].2 as u8);
                        cur = nodes[cur].1 as usize;
                    }
                    p.reverse();
                    groups.push((group, p));
                }
            }
            if unit == EOI {
                continue;
            }
            if !index.contains_key(&tmp) {
                index.insert(tmp.clone(), nodes.len() as u32);
                nodes.push((tmp.clone(), i as u32, unit as u16));
            }
        }
        i += 1;
    }
    (groups, nodes.len(), capped)
}
