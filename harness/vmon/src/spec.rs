//! Definition model: what a generated lexer definition *is*, independent of logos.
//! Rendered to Rust source for the real derive; turned into reference automata by `refa`.

use serde_json::{json, Value};

#[derive(Clone, Copy, Debug, PartialEq, Eq)]
pub enum PatKind {
    Token,
    Regex,
    Skip,
}

/// A Rust literal: `"..."` (str, `bytes == false`, data is valid UTF-8) or `b"..."`.
#[derive(Clone, Debug, PartialEq, Eq)]
pub struct Lit {
    pub bytes: bool,
    pub data: Vec<u8>,
}

impl Lit {
    pub fn s(text: &str) -> Lit {
        Lit { bytes: false, data: text.as_bytes().to_vec() }
    }
    pub fn b(data: &[u8]) -> Lit {
        Lit { bytes: true, data: data.to_vec() }
    }
    /// Rust source of the literal.
    pub fn render(&self) -> String {
        if self.bytes {
            let mut out = String::from("b\"");
            for &b in &self.data {
                for c in std::ascii::escape_default(b) {
                    out.push(c as char);
                }
            }
            out.push('"');
            out
        } else {
            format!("{:?}", std::str::from_utf8(&self.data).expect("str literal must be UTF-8"))
        }
    }
    pub fn as_str(&self) -> Option<&str> {
        std::str::from_utf8(&self.data).ok()
    }
    pub fn to_json(&self) -> Value {
        json!({"bytes": self.bytes, "hex": hex(&self.data), "text": String::from_utf8_lossy(&self.data)})
    }
    pub fn from_json(v: &Value) -> Lit {
        Lit { bytes: v["bytes"].as_bool().unwrap(), data: unhex(v["hex"].as_str().unwrap()) }
    }
}

pub fn hex(data: &[u8]) -> String {
    let mut s = String::with_capacity(data.len() * 2);
    for b in data {
        s.push_str(&format!("{:02x}", b));
    }
    s
}

pub fn unhex(s: &str) -> Vec<u8> {
    (0..s.len() / 2).map(|i| u8::from_str_radix(&s[2 * i..2 * i + 2], 16).unwrap()).collect()
}

/// What a callback returns (C13). Decisions are pure functions of the matched text.
#[derive(Clone, Copy, Debug, PartialEq, Eq)]
pub enum CbRet {
    /// `()` on unit variant: always Emit.
    Unit,
    /// `bool` on unit variant.
    Bool,
    /// `T` on value variant (u64 hash of slice).
    Val,
    /// `Option<T>`.
    OptVal,
    /// `Result<T, E>`.
    ResVal,
    /// `Skip` on unit variant.
    SkipAlways,
    /// `Result<Skip, E>` on unit variant.
    ResSkip,
    /// `Filter<T>` on value variant.
    FilterVal,
    /// `FilterResult<T, E>` on value variant.
    FilterResVal,
    /// `Filter<()>` on unit variant.
    FilterUnit,
    /// returns `Token` itself (unit variants only): `Self`
    Tok,
    /// `Result<Self, E>`
    ResTok,
    /// `Filter<Self>`
    FilterTok,
    /// `FilterResult<Self, E>`
    FilterResTok,
    /// skip callbacks: `()`, `Skip`, `Result<(), E>`, `Result<Skip, E>`
    SkUnit,
    SkSkip,
    SkResUnit,
    SkResSkip,
}

pub const CB_UNIT_KINDS: &[CbRet] = &[
    CbRet::Unit, CbRet::Bool, CbRet::SkipAlways, CbRet::ResSkip, CbRet::FilterUnit, CbRet::Tok,
    CbRet::ResTok, CbRet::FilterTok, CbRet::FilterResTok,
];
pub const CB_VAL_KINDS: &[CbRet] =
    &[CbRet::Val, CbRet::OptVal, CbRet::ResVal, CbRet::FilterVal, CbRet::FilterResVal];
pub const CB_SKIP_KINDS: &[CbRet] = &[CbRet::SkUnit, CbRet::SkSkip, CbRet::SkResUnit, CbRet::SkResSkip];

impl CbRet {
    pub fn name(self) -> &'static str {
        match self {
            CbRet::Unit => "Unit", CbRet::Bool => "Bool", CbRet::Val => "Val", CbRet::OptVal => "OptVal",
            CbRet::ResVal => "ResVal", CbRet::SkipAlways => "SkipAlways", CbRet::ResSkip => "ResSkip",
            CbRet::FilterVal => "FilterVal", CbRet::FilterResVal => "FilterResVal",
            CbRet::FilterUnit => "FilterUnit", CbRet::Tok => "Tok", CbRet::ResTok => "ResTok",
            CbRet::FilterTok => "FilterTok", CbRet::FilterResTok => "FilterResTok",
            CbRet::SkUnit => "SkUnit", CbRet::SkSkip => "SkSkip", CbRet::SkResUnit => "SkResUnit",
            CbRet::SkResSkip => "SkResSkip",
        }
    }
    pub fn from_name(s: &str) -> CbRet {
        for k in CB_UNIT_KINDS.iter().chain(CB_VAL_KINDS).chain(CB_SKIP_KINDS) {
            if k.name() == s {
                return *k;
            }
        }
        panic!("unknown CbRet {s}")
    }
    pub fn needs_value_variant(self) -> bool {
        CB_VAL_KINDS.contains(&self)
    }
}

/// Callback attached to a pattern.
#[derive(Clone, Debug, PartialEq, Eq)]
pub struct Cb {
    pub ret: CbRet,
    /// render as inline closure instead of a named function
    pub inline: bool,
    /// may bump: bump amount is a pure function of (matched text, remainder), see `cb_bump`
    pub bump: bool,
    /// salt mixed into the decision hash so that different leaves decide differently
    pub salt: u32,
    /// for token-returning callbacks: index of the (unit) variant that is emitted
    pub target: usize,
}

#[derive(Clone, Debug, PartialEq, Eq)]
pub struct Pat {
    pub kind: PatKind,
    pub lit: Lit,
    pub ignore_case: bool,
    pub priority: Option<usize>,
    pub allow_greedy: Option<bool>,
    pub cb: Option<Cb>,
    /// index into `Def::variants` (Token / Regex); ignored for Skip
    pub variant: usize,
    /// order in which the named arguments are rendered (indices into the list of present
    /// named args); empty = canonical order
    pub arg_order: Vec<usize>,
    /// render the argument list without blanks around `=` and after `,` (`"a",callback=|lex| 1`)
    pub tight: bool,
    /// render callback positionally (`#[regex("..", cb)]`) instead of `callback = cb`
    pub cb_positional: bool,
    /// raw callback expression overriding the rendered one (L-level only)
    pub cb_text: Option<String>,
}

impl Pat {
    pub fn new(kind: PatKind, lit: Lit, variant: usize) -> Pat {
        Pat {
            kind, lit, ignore_case: false, priority: None, allow_greedy: None, cb: None, variant,
            arg_order: vec![], tight: false, cb_positional: false, cb_text: None,
        }
    }
    pub fn token(text: &str, variant: usize) -> Pat {
        Pat::new(PatKind::Token, Lit::s(text), variant)
    }
    pub fn regex(text: &str, variant: usize) -> Pat {
        Pat::new(PatKind::Regex, Lit::s(text), variant)
    }
    pub fn skip(text: &str) -> Pat {
        Pat::new(PatKind::Skip, Lit::s(text), 0)
    }
    pub fn prio(mut self, p: usize) -> Pat {
        self.priority = Some(p);
        self
    }
    pub fn icase(mut self) -> Pat {
        self.ignore_case = true;
        self
    }
    pub fn greedy(mut self, b: bool) -> Pat {
        self.allow_greedy = Some(b);
        self
    }
}

#[derive(Clone, Copy, Debug, PartialEq, Eq)]
pub enum VarKind {
    Unit,
    /// `V(&'s str)` / `V(&'s [u8])` filled implicitly with the slice (no callback) —
    Slice,
    /// `V(u64)` filled by a callback
    U64,
}

#[derive(Clone, Copy, Debug, PartialEq, Eq)]
pub enum ErrKind {
    /// default `()`
    Unit,
    /// `#[logos(error = VErr)]` (Default = VErr::Default)
    Custom,
    /// `#[logos(error(VErr, callback = verr_cb))]`: callback returns VErr::Cb(span)
    CustomCb,
    /// the same with an inline closure `error(VErr, callback = |lex| ...)` or positional `error(VErr, |lex| ...)`
    CustomCbInline,
}

#[derive(Clone, Debug, PartialEq, Eq)]
pub struct Def {
    pub name: String,
    pub family: String,
    pub utf8: bool,
    /// render `utf8 = true` explicitly
    pub utf8_explicit: bool,
    pub subpats: Vec<(String, Lit)>,
    /// skips first (in order), then token/regex by variant index (stable) — logos leaf order
    pub pats: Vec<Pat>,
    pub variants: Vec<VarKind>,
    pub error: ErrKind,
    /// order in which items of the combined #[logos(...)] attribute are rendered; empty = canonical,
    /// rendered as separate attributes when `logos_split` is true
    pub logos_order: Vec<usize>,
    pub logos_split: bool,
    /// further raw items of the enum-level #[logos(...)] attribute (e.g. `crate = ::logos`)
    pub extra_logos_items: Vec<String>,
    /// raw generic parameter list of the enum (e.g. `<'a, T>`) and raw extra variants (L-level only)
    pub raw_generics: String,
    pub raw_variants: String,
}

impl Def {
    pub fn new(name: &str, family: &str, utf8: bool) -> Def {
        Def {
            name: name.to_string(), family: family.to_string(), utf8, utf8_explicit: false,
            subpats: vec![], pats: vec![], variants: vec![], error: ErrKind::Unit, logos_order: vec![],
            logos_split: false, extra_logos_items: vec![], raw_generics: String::new(), raw_variants: String::new(),
        }
    }

    /// Add a pattern to a fresh unit variant (or as a skip).
    pub fn push(&mut self, mut p: Pat) -> &mut Self {
        if p.kind != PatKind::Skip {
            p.variant = self.variants.len();
            let needs_val = p.cb.as_ref().map(|c| c.ret.needs_value_variant()).unwrap_or(false);
            self.variants.push(if needs_val { VarKind::U64 } else { VarKind::Unit });
        }
        self.pats.push(p);
        self
    }

    /// Put patterns into logos leaf order: skips (stable), then by variant (stable).
    pub fn normalize(&mut self) {
        let mut skips: Vec<Pat> = self.pats.iter().filter(|p| p.kind == PatKind::Skip).cloned().collect();
        let mut rest: Vec<Pat> = self.pats.iter().filter(|p| p.kind != PatKind::Skip).cloned().collect();
        rest.sort_by_key(|p| p.variant);
        skips.extend(rest);
        self.pats = skips;
    }

    /// The same definition with its variants declared in another order (rotated by `k`): the same set of
    /// patterns, priorities and callbacks, other leaf numbers.
    pub fn rotated_variants(&self, k: usize) -> Def {
        let n = self.variants.len();
        let mut d = self.clone();
        if n < 2 {
            return d;
        }
        let map = |v: usize| (v + k) % n;
        for (old, kind) in self.variants.iter().enumerate() {
            d.variants[map(old)] = kind.clone();
        }
        for p in d.pats.iter_mut() {
            if p.kind != PatKind::Skip {
                p.variant = map(p.variant);
            }
            if let Some(cb) = p.cb.as_mut() {
                cb.target = map(cb.target);
            }
        }
        d.normalize();
        d
    }

    pub fn has_callbacks(&self) -> bool {
        self.pats.iter().any(|p| p.cb.is_some())
    }

    /// Does any regex / skip pattern or subpattern spell a look-around assertion? (Over-approximation by text:
    /// an escaped `\$` counts too, which only makes the partial-lexing rules more lenient for that definition.)
    pub fn has_look(&self) -> bool {
        let spelled = |data: &[u8]| {
            let t = String::from_utf8_lossy(data);
            t.contains('$') || t.contains("\\b") || t.contains("\\B") || t.contains("\\z") || t.contains("\\A") || t.contains('^')
        };
        self.pats.iter().any(|p| p.kind != PatKind::Token && spelled(&p.lit.data)) || self.subpats.iter().any(|(_, l)| spelled(&l.data))
    }

    pub fn variant_name(i: usize) -> String {
        format!("V{i}")
    }

    /// Names of the named-argument items of a pattern in canonical order.
    fn named_args(p: &Pat, def_name: &str, leaf: usize) -> Vec<String> {
        let mut args = vec![];
        if let Some(cb) = &p.cb {
            if !p.cb_positional {
                args.push(format!("callback = {}", cb_expr_of(p, cb, def_name, leaf)));
            }
        }
        if let Some(prio) = p.priority {
            args.push(format!("priority = {prio}"));
        }
        if p.ignore_case {
            // every spelling of the flag list that the attribute parser accepts (any delimiter, trailing comma)
            args.push(match (leaf + def_name.len()) % 16 {
                3 | 11 => "ignore(case,)",
                7 => "ignore[case]",
                15 => "ignore{case}",
                _ => "ignore(case)",
            }.to_string());
        }
        if let Some(g) = p.allow_greedy {
            args.push(format!("allow_greedy = {g}"));
        }
        args
    }

    fn pat_args(&self, leaf: usize) -> String {
        let p = &self.pats[leaf];
        let mut out = p.lit.render();
        let sep = if p.tight { "," } else { ", " };
        if let (Some(cb), true) = (&p.cb, p.cb_positional) {
            out.push_str(sep);
            out.push_str(&cb_expr_of(p, cb, &self.name, leaf));
        }
        let named = Self::named_args(p, &self.name, leaf);
        let order: Vec<usize> = if p.arg_order.len() == named.len() {
            p.arg_order.clone()
        } else {
            (0..named.len()).collect()
        };
        for i in order {
            out.push_str(sep);
            if p.tight {
                out.push_str(&named[i].replacen(" = ", "=", 1));
            } else {
                out.push_str(&named[i]);
            }
        }
        out
    }

    /// Items of the enum-level `#[logos(...)]` attribute in canonical order.
    pub fn logos_items(&self) -> Vec<String> {
        let mut items = vec![];
        if !self.utf8 {
            items.push("utf8 = false".to_string());
        } else if self.utf8_explicit {
            items.push("utf8 = true".to_string());
        }
        match self.error {
            ErrKind::Unit => {}
            ErrKind::Custom => items.push("error = VErr".to_string()),
            ErrKind::CustomCb => items.push(format!("error(VErr, callback = {}_errcb)", self.name.to_lowercase())),
            ErrKind::CustomCbInline => {
                let body = "|lex| VErr::FromCb(lex.span().start, lex.span().end)";
                if self.name.len() % 2 == 0 {
                    items.push(format!("error(VErr, callback = {body})"))
                } else {
                    items.push(format!("error(VErr, {body})"))
                }
            }
        }
        if self.has_callbacks() {
            items.push("extras = VExtras".to_string());
        }
        items.extend(self.extra_logos_items.iter().cloned());
        for (name, lit) in &self.subpats {
            items.push(format!("subpattern {} = {}", name, lit.render()));
        }
        for (leaf, p) in self.pats.iter().enumerate() {
            if p.kind == PatKind::Skip {
                let simple = p.cb.is_none() && p.priority.is_none() && !p.ignore_case && p.allow_greedy.is_none();
                if simple && leaf % 2 == 0 {
                    items.push(format!("skip {}", p.lit.render()));
                } else {
                    items.push(format!("skip({})", self.pat_args(leaf)));
                }
            }
        }
        items
    }

    /// Rust source of the enum (plus callback functions). Expects `use vrt::prelude::*` in scope
    /// when callbacks / custom errors are used (R-level); L-level only parses tokens.
    pub fn render(&self) -> String {
        let mut out = String::new();
        let items = self.logos_items();
        let order: Vec<usize> =
            if self.logos_order.len() == items.len() { self.logos_order.clone() } else { (0..items.len()).collect() };
        out.push_str("#[derive(Logos, Debug, PartialEq, Clone)]\n");
        if self.logos_split {
            for i in order {
                out.push_str(&format!("#[logos({})]\n", items[i]));
            }
        } else if !items.is_empty() {
            let joined: Vec<&str> = order.iter().map(|&i| items[i].as_str()).collect();
            out.push_str(&format!("#[logos({})]\n", joined.join(", ")));
        }
        let needs_lt = self.variants.iter().any(|v| *v == VarKind::Slice);
        if !self.raw_generics.is_empty() {
            out.push_str(&format!("pub enum {}{} {{\n", self.name, self.raw_generics));
        } else if needs_lt {
            out.push_str(&format!("pub enum {}<'s> {{\n", self.name));
        } else {
            out.push_str(&format!("pub enum {} {{\n", self.name));
        }
        for (vi, vk) in self.variants.iter().enumerate() {
            for (leaf, p) in self.pats.iter().enumerate() {
                if p.kind == PatKind::Skip || p.variant != vi {
                    continue;
                }
                let attr = if p.kind == PatKind::Token { "token" } else { "regex" };
                out.push_str(&format!("    #[{}({})]\n", attr, self.pat_args(leaf)));
            }
            match vk {
                VarKind::Unit => out.push_str(&format!("    {},\n", Self::variant_name(vi))),
                VarKind::Slice => {
                    let ty = if self.utf8 { "&'s str" } else { "&'s [u8]" };
                    out.push_str(&format!("    {}({}),\n", Self::variant_name(vi), ty))
                }
                VarKind::U64 => out.push_str(&format!("    {}(u64),\n", Self::variant_name(vi))),
            }
        }
        out.push_str(&self.raw_variants);
        out.push_str("}\n");
        out
    }

    pub fn to_json(&self) -> Value {
        json!({
            "name": self.name, "family": self.family, "utf8": self.utf8, "utf8_explicit": self.utf8_explicit,
            "subpats": self.subpats.iter().map(|(n, l)| json!({"name": n, "lit": l.to_json()})).collect::<Vec<_>>(),
            "pats": self.pats.iter().map(|p| json!({
                "kind": match p.kind { PatKind::Token => "token", PatKind::Regex => "regex", PatKind::Skip => "skip" },
                "lit": p.lit.to_json(), "ignore_case": p.ignore_case, "priority": p.priority,
                "allow_greedy": p.allow_greedy, "variant": p.variant,
                "cb": p.cb.as_ref().map(|c| json!({"ret": c.ret.name(), "inline": c.inline, "bump": c.bump, "salt": c.salt, "target": c.target})),
                "arg_order": p.arg_order, "tight": p.tight, "cb_positional": p.cb_positional, "cb_text": p.cb_text,
            })).collect::<Vec<_>>(),
            "variants": self.variants.iter().map(|v| match v { VarKind::Unit => "unit", VarKind::Slice => "slice", VarKind::U64 => "u64" }).collect::<Vec<_>>(),
            "error": match self.error { ErrKind::Unit => "unit", ErrKind::Custom => "custom", ErrKind::CustomCb => "customcb", ErrKind::CustomCbInline => "customcbinline" },
            "logos_order": self.logos_order, "logos_split": self.logos_split, "extra_logos_items": self.extra_logos_items, "raw_generics": self.raw_generics, "raw_variants": self.raw_variants,
            "source": self.render(),
        })
    }

    pub fn from_json(v: &Value) -> Def {
        let us = |x: &Value| x.as_u64().unwrap() as usize;
        Def {
            name: v["name"].as_str().unwrap().to_string(),
            family: v["family"].as_str().unwrap().to_string(),
            utf8: v["utf8"].as_bool().unwrap(),
            utf8_explicit: v["utf8_explicit"].as_bool().unwrap_or(false),
            subpats: v["subpats"].as_array().unwrap().iter()
                .map(|s| (s["name"].as_str().unwrap().to_string(), Lit::from_json(&s["lit"]))).collect(),
            pats: v["pats"].as_array().unwrap().iter().map(|p| Pat {
                kind: match p["kind"].as_str().unwrap() { "token" => PatKind::Token, "regex" => PatKind::Regex, _ => PatKind::Skip },
                lit: Lit::from_json(&p["lit"]),
                ignore_case: p["ignore_case"].as_bool().unwrap(),
                priority: p["priority"].as_u64().map(|x| x as usize),
                allow_greedy: p["allow_greedy"].as_bool(),
                variant: us(&p["variant"]),
                cb: if p["cb"].is_null() { None } else { Some(Cb {
                    ret: CbRet::from_name(p["cb"]["ret"].as_str().unwrap()),
                    inline: p["cb"]["inline"].as_bool().unwrap(),
                    bump: p["cb"]["bump"].as_bool().unwrap(),
                    salt: p["cb"]["salt"].as_u64().unwrap() as u32,
                    target: p["cb"]["target"].as_u64().unwrap_or(0) as usize,
                }) },
                arg_order: p["arg_order"].as_array().map(|a| a.iter().map(us).collect()).unwrap_or_default(),
                tight: p["tight"].as_bool().unwrap_or(false),
                cb_positional: p["cb_positional"].as_bool().unwrap_or(false),
                cb_text: p["cb_text"].as_str().map(|s| s.to_string()),
            }).collect(),
            variants: v["variants"].as_array().unwrap().iter().map(|x| match x.as_str().unwrap() {
                "unit" => VarKind::Unit, "slice" => VarKind::Slice, _ => VarKind::U64 }).collect(),
            error: match v["error"].as_str().unwrap() { "unit" => ErrKind::Unit, "custom" => ErrKind::Custom, "customcbinline" => ErrKind::CustomCbInline, _ => ErrKind::CustomCb },
            logos_order: v["logos_order"].as_array().map(|a| a.iter().map(us).collect()).unwrap_or_default(),
            logos_split: v["logos_split"].as_bool().unwrap_or(false),
            extra_logos_items: v["extra_logos_items"].as_array().map(|a| a.iter().map(|x| x.as_str().unwrap().to_string()).collect()).unwrap_or_default(),
            raw_generics: v["raw_generics"].as_str().unwrap_or("").to_string(),
            raw_variants: v["raw_variants"].as_str().unwrap_or("").to_string(),
        }
    }
}

pub fn cb_fn_name(def: &str, leaf: usize) -> String {
    format!("{}_cb{}", def.to_lowercase(), leaf)
}

/// `salt == BUILTIN_SKIP` marks the library's own `logos::skip` helper used as the callback
pub const BUILTIN_SKIP: u32 = u32::MAX;

fn cb_expr_of(p: &Pat, cb: &Cb, def: &str, leaf: usize) -> String {
    if cb.salt == BUILTIN_SKIP {
        return "logos::skip".to_string();
    }
    match &p.cb_text {
        Some(t) => t.clone(),
        None => cb_expr(cb, def, leaf),
    }
}

/// Inline closures whose body is not one braced block: 1 = `({ .. }) ^ 1` (value callbacks), 2 = `({ .. }) == false`
/// (bool callbacks); the block computes the complement so that the closure as a whole means the same as shape 0.
pub fn inline_shape(cb: &Cb) -> u8 {
    if !cb.inline || cb.salt % 3 != 1 {
        return 0;
    }
    match cb.ret {
        CbRet::Val => 1,
        CbRet::Bool => 2,
        _ => 0,
    }
}

/// Some named callbacks are functions called `skip` inside a module of their own (a user function that merely
/// shares its name with `logos::skip`).
pub fn cb_in_module(cb: &Cb) -> bool {
    !cb.inline && cb.salt != BUILTIN_SKIP && cb.salt % 5 == 2
}

fn cb_expr(cb: &Cb, def: &str, leaf: usize) -> String {
    if cb_in_module(cb) {
        return format!("{}_m::skip", cb_fn_name(def, leaf));
    }
    if cb.inline {
        // placeholder replaced by the real body in `render_full`
        let mark = INLINE_MARK.replace("LEAF", &leaf.to_string()).replace("DEF", def);
        match inline_shape(cb) {
            1 => return format!("|lex| ({{ {mark} }}) ^ 1"),
            2 => return format!("|lex| ({{ {mark} }}) == false"),
            _ => {}
        }
        format!("|lex| {{ {} }}", mark)
    } else {
        cb_fn_name(def, leaf)
    }
}

const INLINE_MARK: &str = "__inline_body_DEF_LEAF()";

impl Def {
    fn err_ty(&self) -> &'static str {
        if self.error == ErrKind::Unit { "()" } else { "VErr" }
    }
    fn err_val(&self, leaf: usize) -> String {
        if self.error == ErrKind::Unit { "()".into() } else { format!("VErr::Cb({leaf})") }
    }
    pub fn this_ty(&self) -> String {
        let lt = if self.variants.iter().any(|v| *v == VarKind::Slice) { "<'s>" } else { "" };
        format!("{}{}", self.name, lt)
    }
    pub fn cb_ret_type(&self, ret: CbRet) -> String {
        let this = self.this_ty();
        let e = self.err_ty();
        match ret {
            CbRet::Unit | CbRet::SkUnit => "()".into(),
            CbRet::Bool => "bool".into(),
            CbRet::Val => "u64".into(),
            CbRet::OptVal => "Option<u64>".into(),
            CbRet::ResVal => format!("Result<u64, {e}>"),
            CbRet::SkipAlways | CbRet::SkSkip => "Skip".into(),
            CbRet::ResSkip | CbRet::SkResSkip => format!("Result<Skip, {e}>"),
            CbRet::FilterVal => "Filter<u64>".into(),
            CbRet::FilterResVal => format!("FilterResult<u64, {e}>"),
            CbRet::FilterUnit => "Filter<()>".into(),
            CbRet::Tok => this,
            CbRet::ResTok => format!("Result<{this}, {e}>"),
            CbRet::FilterTok => format!("Filter<{this}>"),
            CbRet::FilterResTok => format!("FilterResult<{this}, {e}>"),
            CbRet::SkResUnit => format!("Result<(), {e}>"),
        }
    }
    /// Body of the callback for `leaf`: logs the invocation (and bumps) through `vrt::cb_enter_*`,
    /// then maps the decision hash to a return value. The same mapping is implemented
    /// independently by the checker (`vrt::expect`).
    pub fn cb_body(&self, leaf: usize) -> String {
        let p = &self.pats[leaf];
        let cb = p.cb.as_ref().unwrap();
        let enter = if self.utf8 { "cb_enter_str" } else { "cb_enter_bytes" };
        let tok = format!("{}::{}", self.name, Def::variant_name(cb.target));
        let e = self.err_val(leaf);
        let ety = self.err_ty();
        let tail = match cb.ret {
            CbRet::Unit | CbRet::SkUnit => "let _ = h;".to_string(),
            CbRet::Bool if inline_shape(cb) == 2 => "h % 2 != 0".into(),
            CbRet::Val if inline_shape(cb) == 1 => "h ^ 1".into(),
            CbRet::Bool => "h % 2 == 0".into(),
            CbRet::Val => "h".into(),
            CbRet::OptVal => "if h % 3 == 0 { None } else { Some(h) }".into(),
            CbRet::ResVal => format!("if h % 3 == 0 {{ if h % 7 == 0 {{ Err(<{ety}>::default()) }} else {{ Err({e}) }} }} else {{ Ok(h) }}"),
            CbRet::SkipAlways | CbRet::SkSkip => "let _ = h; Skip".into(),
            CbRet::ResSkip | CbRet::SkResSkip => format!("if h % 2 == 0 {{ if h % 7 == 0 {{ Err(<{ety}>::default()) }} else {{ Err({e}) }} }} else {{ Ok(Skip) }}"),
            CbRet::FilterVal => "if h % 2 == 0 { Filter::Emit(h) } else { Filter::Skip }".into(),
            CbRet::FilterResVal => format!("match h % 3 {{ 0 => FilterResult::Emit(h), 1 => FilterResult::Skip, _ => FilterResult::Error({e}) }}"),
            CbRet::FilterUnit => "if h % 2 == 0 { Filter::Emit(()) } else { Filter::Skip }".into(),
            CbRet::Tok => format!("let _ = h; {tok}"),
            CbRet::ResTok => format!("if h % 3 == 0 {{ if h % 7 == 0 {{ Err(<{ety}>::default()) }} else {{ Err({e}) }} }} else {{ Ok({tok}) }}"),
            CbRet::FilterTok => format!("if h % 2 == 0 {{ Filter::Emit({tok}) }} else {{ Filter::Skip }}"),
            CbRet::FilterResTok => format!("match h % 3 {{ 0 => FilterResult::Emit({tok}), 1 => FilterResult::Skip, _ => FilterResult::Error({e}) }}"),
            CbRet::SkResUnit => format!("if h % 2 == 0 {{ Err({e}) }} else {{ Ok(()) }}"),
        };
        format!("let h = vrt::{enter}(lex, {leaf}, {}, {}); {tail}", cb.salt, cb.bump)
    }

    /// Full Rust source for the R level: enum + callbacks (inline bodies substituted).
    pub fn render_full(&self) -> String {
        let mut src = self.render();
        for (leaf, p) in self.pats.iter().enumerate() {
            if let Some(cb) = &p.cb {
                if cb.inline {
                    let mark = INLINE_MARK.replace("LEAF", &leaf.to_string()).replace("DEF", &self.name);
                    src = src.replace(&mark, &self.cb_body(leaf));
                }
            }
        }
        let this = self.this_ty();
        for (leaf, p) in self.pats.iter().enumerate() {
            if let Some(cb) = &p.cb {
                if cb_in_module(cb) {
                    src.push_str(&format!(
                        "mod {}_m {{ use super::*; pub fn skip<'s>(lex: &mut Lexer<'s, {}>) -> {} {{ {} }} }}\n",
                        cb_fn_name(&self.name, leaf), this, self.cb_ret_type(cb.ret), self.cb_body(leaf)
                    ));
                } else if !cb.inline && cb.salt != BUILTIN_SKIP {
                    src.push_str(&format!(
                        "fn {}<'s>(lex: &mut Lexer<'s, {}>) -> {} {{ {} }}\n",
                        cb_fn_name(&self.name, leaf), this, self.cb_ret_type(cb.ret), self.cb_body(leaf)
                    ));
                }
            }
        }
        if self.error == ErrKind::CustomCb {
            src.push_str(&format!(
                "fn {}_errcb<'s>(lex: &mut Lexer<'s, {}>) -> VErr {{ VErr::FromCb(lex.span().start, lex.span().end) }}\n",
                self.name.to_lowercase(), this
            ));
        }
        src
    }
}
