//! Plain-data mirror of the graph captured from logos-codegen (hook), its JSON form, and an
//! interpreter that executes it exactly the way the generated code is documented to.

use serde_json::{json, Value};

#[derive(Clone, Debug, Default, PartialEq, Eq)]
pub struct GState {
    pub accept: Option<usize>,
    pub early: Option<usize>,
    /// (inclusive byte ranges, target)
    pub normal: Vec<(Vec<(u8, u8)>, usize)>,
    pub eoi: Option<usize>,
}

#[derive(Clone, Debug, Default, PartialEq, Eq)]
pub struct GLeaf {
    pub priority: usize,
    pub kind: String,
    pub pattern: String,
    pub has_callback: bool,
}

#[derive(Clone, Debug, PartialEq, Eq)]
pub enum GError {
    NoUniversalStart,
    EmptyMatch(usize),
    Disambiguation(Vec<usize>),
}

#[derive(Clone, Debug, Default, PartialEq, Eq)]
pub struct GraphData {
    pub utf8: bool,
    pub root: usize,
    pub states: Vec<GState>,
    pub leaves: Vec<GLeaf>,
    pub errors: Vec<GError>,
}

/// Dense lookup: table[state][byte] -> Option<target>; `overlap` is set when two classes of one
/// state contain the same byte.
pub struct Dense {
    pub table: Vec<[u32; 256]>,
    pub overlap: Option<(usize, u8)>,
}

pub const NONE: u32 = u32::MAX;

impl GraphData {
    pub fn dense(&self) -> Dense {
        let mut table = vec![[NONE; 256]; self.states.len()];
        let mut overlap = None;
        for (si, s) in self.states.iter().enumerate() {
            for (ranges, target) in &s.normal {
                for &(lo, hi) in ranges {
                    for b in lo..=hi {
                        if table[si][b as usize] != NONE && overlap.is_none() {
                            overlap = Some((si, b));
                        }
                        table[si][b as usize] = *target as u32;
                    }
                }
            }
        }
        Dense { table, overlap }
    }

    pub fn is_skip(&self, leaf: usize) -> bool {
        self.leaves[leaf].kind == "::<skip>"
    }

    pub fn priorities(&self) -> Vec<usize> {
        self.leaves.iter().map(|l| l.priority).collect()
    }

    pub fn to_json(&self) -> Value {
        json!({
            "utf8": self.utf8, "root": self.root,
            "states": self.states.iter().map(|s| json!({
                "accept": s.accept, "early": s.early, "eoi": s.eoi,
                "normal": s.normal.iter().map(|(r, t)| json!({"ranges": r.iter().map(|(a, b)| json!([a, b])).collect::<Vec<_>>(), "to": t})).collect::<Vec<_>>(),
            })).collect::<Vec<_>>(),
            "leaves": self.leaves.iter().map(|l| json!({"priority": l.priority, "kind": l.kind, "pattern": l.pattern, "has_callback": l.has_callback})).collect::<Vec<_>>(),
            "errors": self.errors.iter().map(|e| match e {
                GError::NoUniversalStart => json!({"kind": "no_universal_start"}),
                GError::EmptyMatch(l) => json!({"kind": "empty_match", "leaf": l}),
                GError::Disambiguation(ls) => json!({"kind": "disambiguation", "leaves": ls}),
            }).collect::<Vec<_>>(),
        })
    }

    pub fn from_json(v: &Value) -> GraphData {
        let us = |x: &Value| x.as_u64().map(|x| x as usize);
        GraphData {
            utf8: v["utf8"].as_bool().unwrap(),
            root: us(&v["root"]).unwrap(),
            states: v["states"].as_array().unwrap().iter().map(|s| GState {
                accept: us(&s["accept"]), early: us(&s["early"]), eoi: us(&s["eoi"]),
                normal: s["normal"].as_array().unwrap().iter().map(|e| (
                    e["ranges"].as_array().unwrap().iter().map(|r| (r[0].as_u64().unwrap() as u8, r[1].as_u64().unwrap() as u8)).collect(),
                    us(&e["to"]).unwrap())).collect(),
            }).collect(),
            leaves: v["leaves"].as_array().unwrap().iter().map(|l| GLeaf {
                priority: us(&l["priority"]).unwrap(), kind: l["kind"].as_str().unwrap().into(),
                pattern: l["pattern"].as_str().unwrap().into(), has_callback: l["has_callback"].as_bool().unwrap(),
            }).collect(),
            errors: v["errors"].as_array().unwrap().iter().map(|e| match e["kind"].as_str().unwrap() {
                "no_universal_start" => GError::NoUniversalStart,
                "empty_match" => GError::EmptyMatch(us(&e["leaf"]).unwrap()),
                _ => GError::Disambiguation(e["leaves"].as_array().unwrap().iter().map(|x| us(x).unwrap()).collect()),
            }).collect(),
        }
    }

    /// Histogram of the code-generation shapes this graph will exercise (mirrors the choices in
    /// logos-codegen/src/generator: >2 edges => jump table; comparison count > 2 => LUT test;
    /// self edge => fast loop).
    pub fn shapes(&self) -> Shapes {
        let mut sh = Shapes::default();
        sh.states = self.states.len();
        for (si, s) in self.states.iter().enumerate() {
            if s.normal.len() > 2 {
                sh.jump_table += 1;
            } else {
                for (ranges, t) in &s.normal {
                    if *t == si {
                        continue;
                    }
                    let ops = cmp_ops(ranges);
                    if ops > 2 {
                        sh.lut_test += 1;
                    } else if ranges.len() > 1 || ops_has_except(ranges) {
                        sh.range_except += 1;
                    } else {
                        sh.simple_cmp += 1;
                    }
                }
            }
            if s.normal.iter().any(|(_, t)| *t == si) {
                sh.fast_loop += 1;
            }
            if s.eoi.is_some() {
                sh.eoi_edge += 1;
            }
            if s.early.is_some() {
                sh.early_accept += 1;
            }
            if s.accept.is_some() {
                sh.late_accept += 1;
            }
            if s.early.is_some() && s.accept.is_some() {
                sh.both_accept += 1;
            }
        }
        // distinct LUT masks this definition needs (fast loops always use one; tests with more than 2 comparisons too)
        let mut masks: Vec<Vec<(u8, u8)>> = vec![];
        for (si, s) in self.states.iter().enumerate() {
            for (ranges, t) in &s.normal {
                let is_loop = *t == si;
                let is_test = !is_loop && s.normal.len() <= 2 && cmp_ops(ranges) > 2;
                if (is_loop || is_test) && !masks.contains(ranges) {
                    masks.push(ranges.clone());
                }
            }
        }
        sh.max_lut_masks = masks.len();
        sh.skip_leaves = self.leaves.iter().filter(|l| l.kind == "::<skip>").count();
        sh.callback_leaves = self.leaves.iter().filter(|l| l.has_callback).count();
        sh
    }
}

fn merged(ranges: &[(u8, u8)]) -> Vec<((u8, u8), usize)> {
    // mirror of ByteClass::impl_with_cmp: merge ranges separated by exactly one byte
    let mut out: Vec<((u8, u8), usize)> = vec![];
    for &(lo, hi) in ranges {
        if let Some(((_, end), ex)) = out.last_mut() {
            if lo as u16 == *end as u16 + 2 {
                *end = hi;
                *ex += 1;
                continue;
            }
        }
        out.push(((lo, hi), 0));
    }
    out
}

fn cmp_ops(ranges: &[(u8, u8)]) -> usize {
    merged(ranges)
        .iter()
        .map(|((lo, hi), ex)| {
            (if lo == hi {
                1
            } else {
                (if *lo > 0 { 1 } else { 0 }) + (if *hi < 255 { 1 } else { 0 })
            }) + ex
        })
        .sum()
}

fn ops_has_except(ranges: &[(u8, u8)]) -> bool {
    merged(ranges).iter().any(|(_, ex)| *ex > 0)
}

#[derive(Clone, Debug, Default)]
pub struct Shapes {
    pub states: usize,
    pub jump_table: usize,
    pub lut_test: usize,
    pub range_except: usize,
    pub simple_cmp: usize,
    pub fast_loop: usize,
    pub eoi_edge: usize,
    pub early_accept: usize,
    pub late_accept: usize,
    pub both_accept: usize,
    pub skip_leaves: usize,
    pub callback_leaves: usize,
    /// maximal number of distinct LUT masks needed by one definition (8 masks per table)
    pub max_lut_masks: usize,
}

impl Shapes {
    pub fn add(&mut self, o: &Shapes) {
        self.max_lut_masks = self.max_lut_masks.max(o.max_lut_masks);
        self.states += o.states;
        self.jump_table += o.jump_table;
        self.lut_test += o.lut_test;
        self.range_except += o.range_except;
        self.simple_cmp += o.simple_cmp;
        self.fast_loop += o.fast_loop;
        self.eoi_edge += o.eoi_edge;
        self.early_accept += o.early_accept;
        self.late_accept += o.late_accept;
        self.both_accept += o.both_accept;
        self.skip_leaves += o.skip_leaves;
        self.callback_leaves += o.callback_leaves;
    }
    pub fn to_json(&self) -> Value {
        json!({"states": self.states, "jump_table": self.jump_table, "lut_test": self.lut_test,
            "range_with_exceptions_or_multi": self.range_except, "simple_compare": self.simple_cmp,
            "fast_loop": self.fast_loop, "eoi_edge": self.eoi_edge, "early_accept": self.early_accept,
            "late_accept": self.late_accept, "early_and_late": self.both_accept,
            "skip_leaves": self.skip_leaves, "callback_leaves": self.callback_leaves, "max_lut_masks_in_one_definition": self.max_lut_masks})
    }
}

/// Outcome of one graph-interpreted match attempt.
#[derive(Clone, Debug, PartialEq, Eq)]
pub enum GAttempt {
    /// context leaf set; match ends at `end`
    Match { leaf: usize, end: usize },
    /// no context; error span ends at `end` (already rounded to boundary in str mode)
    Error { end: usize },
    /// ordinary end of iteration (root at end of input)
    End,
    /// partial mode: need more input
    NeedMore,
    /// interpreter detected something the generated code would mishandle
    Broken(&'static str),
}

/// Execute one match attempt from `start`, mirroring the generated code.
pub fn interp_attempt(g: &GraphData, dense: &Dense, src: &[u8], start: usize, partial: bool) -> GAttempt {
    let mut state = g.root;
    let mut offset = start;
    let mut ctx: Option<usize> = None;
    let mut end = start;
    let mut steps = 0usize;
    loop {
        steps += 1;
        if steps > src.len() + 8 {
            return GAttempt::Broken("interpreter step budget exceeded");
        }
        let s = &g.states[state];
        // fast loop over the self edge
        while offset < src.len() && dense.table[state][src[offset] as usize] == state as u32 {
            offset += 1;
        }
        if let Some(l) = s.early {
            end = offset;
            ctx = Some(l);
        } else if let Some(l) = s.accept {
            if offset == 0 {
                return GAttempt::Broken("late accept at offset 0");
            }
            end = offset - 1;
            ctx = Some(l);
        }
        if offset < src.len() {
            let t = dense.table[state][src[offset] as usize];
            if t != NONE && t as usize != state {
                offset += 1;
                state = t as usize;
                continue;
            }
        } else {
            if partial && (!s.normal.is_empty() || s.eoi.is_some()) {
                return GAttempt::NeedMore;
            }
            if state == g.root && offset == start {
                return GAttempt::End;
            }
            if let Some(t) = s.eoi {
                offset += 1;
                state = t;
                continue;
            }
        }
        // take action
        return match ctx {
            Some(leaf) => GAttempt::Match { leaf, end },
            None => {
                let mut e = offset.max(start + 1);
                if e > src.len() {
                    return GAttempt::Broken("error end beyond source");
                }
                if g.utf8 {
                    e = crate::utf8::round_up(src, e);
                }
                GAttempt::Error { end: e }
            }
        };
    }
}
