//! Run the real `logos_codegen::generate` on a definition and collect what can be observed:
//! emitted tokens, compile_error texts, panics, the captured graph.

use std::cell::RefCell;
use std::panic::{catch_unwind, AssertUnwindSafe};
use std::str::FromStr;

use proc_macro2::{TokenStream, TokenTree};
use vmon::graph::{GError, GLeaf, GState, GraphData};
use vmon::refa::{RefError, Reference};
use vmon::spec::Def;

#[derive(Clone, Debug, PartialEq)]
pub enum Outcome {
    Accepted,
    Rejected(Vec<String>),
    Panicked(String),
    /// the rendered source is not even a token stream / enum (harness problem)
    Unparsable(String),
}

pub struct Analysis {
    pub source: String,
    pub outcome: Outcome,
    pub graph: Option<GraphData>,
    pub output: String,
}

thread_local! {
    static LAST_PANIC: RefCell<String> = const { RefCell::new(String::new()) };
}

pub fn install_quiet_panic_hook() {
    std::panic::set_hook(Box::new(|info| {
        let msg = format!("{info}");
        LAST_PANIC.with(|p| *p.borrow_mut() = msg);
    }));
}

pub fn convert_graph(c: logos_codegen::verif::CapturedGraph) -> GraphData {
    GraphData {
        utf8: c.utf8,
        root: c.root,
        states: c
            .states
            .into_iter()
            .map(|s| GState { accept: s.accept, early: s.early, normal: s.normal, eoi: s.eoi })
            .collect(),
        leaves: c
            .leaves
            .into_iter()
            .map(|l| GLeaf { priority: l.priority, kind: l.kind, pattern: l.pattern, has_callback: l.has_callback })
            .collect(),
        errors: c
            .errors
            .into_iter()
            .map(|e| match e {
                logos_codegen::verif::CapturedError::NoUniversalStart => GError::NoUniversalStart,
                logos_codegen::verif::CapturedError::EmptyMatch(l) => GError::EmptyMatch(l),
                logos_codegen::verif::CapturedError::Disambiguation(ls) => GError::Disambiguation(ls),
            })
            .collect(),
    }
}

/// Collect the string arguments of every `compile_error!(...)` in a token stream.
pub fn compile_errors(ts: TokenStream, out: &mut Vec<String>) {
    let toks: Vec<TokenTree> = ts.into_iter().collect();
    let mut i = 0;
    while i < toks.len() {
        if let TokenTree::Ident(id) = &toks[i] {
            if id == "compile_error" && i + 2 < toks.len() {
                if let (TokenTree::Punct(p), TokenTree::Group(g)) = (&toks[i + 1], &toks[i + 2]) {
                    if p.as_char() == '!' {
                        let msg = match syn::parse2::<syn::LitStr>(g.stream()) {
                            Ok(l) => l.value(),
                            Err(_) => g.stream().to_string(),
                        };
                        out.push(msg);
                        i += 3;
                        continue;
                    }
                }
            }
        }
        if let TokenTree::Group(g) = &toks[i] {
            compile_errors(g.stream(), out);
        }
        i += 1;
    }
}

pub fn run_generate_source(source: &str) -> Analysis {
    let ts = match TokenStream::from_str(source) {
        Ok(ts) => ts,
        Err(e) => {
            return Analysis { source: source.to_string(), outcome: Outcome::Unparsable(e.to_string()), graph: None, output: String::new() }
        }
    };
    if syn::parse2::<syn::ItemEnum>(ts.clone()).is_err() {
        return Analysis { source: source.to_string(), outcome: Outcome::Unparsable("not an enum".into()), graph: None, output: String::new() };
    }
    logos_codegen::verif::clear();
    let res = catch_unwind(AssertUnwindSafe(|| logos_codegen::generate(ts)));
    let graph = logos_codegen::verif::take().map(convert_graph);
    match res {
        Err(payload) => {
            let mut msg = if let Some(s) = payload.downcast_ref::<String>() {
                s.clone()
            } else if let Some(s) = payload.downcast_ref::<&str>() {
                s.to_string()
            } else {
                "non-string panic".to_string()
            };
            LAST_PANIC.with(|p| {
                if !p.borrow().is_empty() {
                    msg = p.borrow().clone();
                }
            });
            Analysis { source: source.to_string(), outcome: Outcome::Panicked(msg), graph, output: String::new() }
        }
        Ok(out) => {
            let mut errs = vec![];
            compile_errors(out.clone(), &mut errs);
            let output = out.to_string();
            let outcome = if errs.is_empty() { Outcome::Accepted } else { Outcome::Rejected(errs) };
            Analysis { source: source.to_string(), outcome, graph, output }
        }
    }
}

pub fn run_generate(def: &Def) -> Analysis {
    // The derive only needs the enum item; callbacks are referenced by path and never resolved here.
    run_generate_source(&def.render())
}

pub fn describe_ref_error(e: &RefError) -> String {
    match e {
        RefError::Syntax(l, m) => format!("leaf {l}: reference rejects pattern: {m}"),
        RefError::UndefinedSubpattern(l, n) => format!("leaf {l}: undefined subpattern {n}"),
        RefError::NoUniversalStart(l) => format!("leaf {l}: look-behind at pattern start (no universal start state)"),
        RefError::TooLarge(l) => format!("leaf {l}: reference automaton too large"),
    }
}

pub fn build_reference(def: &Def) -> Result<Reference, RefError> {
    Reference::build(def)
}
