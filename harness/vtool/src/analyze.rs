//! Run the real `logos_codegen::generate` on a definition and collect what can be observed:
//! emitted tokens, compile_error texts, panics, the captured graph.

use std::cell::RefCell;
use std::panic::{catch_unwind, AssertUnwindSafe};
use std::str::FromStr;

use proc_macro2::{TokenStream, TokenTree};
use vmon::graph::{GError, GLeaf, GState, GraphData};
use vmon::refa::{RefError, Reference};
use vmon::spec::Def;

#[derive(Clone, Debug, PartialEq)]
pub enum Outcome {
    Accepted,
    Rejected(Vec<String>),
    Panicked(String),
    /// the rendered source is not even a token stream / enum (harness problem)
    Unparsable(String),
}

pub struct Analysis {
    pub source: String,
    pub outcome: Outcome,
    pub graph: Option<GraphData>,
    pub output: String,
}

thread_local! {
    static LAST_PANIC: RefCell<String> = const { RefCell::new(String::new()) };
}

pub fn install_quiet_panic_hook() {
    std::panic::set_hook(Box::new(|info| {
        let msg = format!("{info}");
        LAST_PANIC.with(|p| *p.borrow_mut() = msg);
    }));
}

pub fn convert_graph(c: logos_codegen::verif::CapturedGraph) -> GraphData {
    GraphData {
        utf8: c.utf8,
        root: c.root,
        states: c
            .states
            .into_iter()
            .map(|s| GState { accept: s.accept, early: s.early, normal: s.normal, eoi: s.eoi })
            .collect(),
        leaves: c
            .leaves
            .into_iter()
            .map(|l| GLeaf { priority: l.priority, kind: l.kind, pattern: l.pattern, has_callback: l.has_callback })
            .collect(),
        errors: c
            .errors
            .into_iter()
            .map(|e| match e {
                logos_codegen::verif::CapturedError::NoUniversalStart => GError::NoUniversalStart,
                logos_codegen::verif::CapturedError::EmptyMatch(l) => GError::EmptyMatch(l),
                logos_codegen::verif::CapturedError::Disambiguation(ls) => GError::Disambiguation(ls),
            })
            .collect(),
    }
}

/// Collect the string arguments of every `compile_error!(...)` in a token stream.
pub fn compile_errors(ts: TokenStream, out: &mut Vec<String>) {
    let toks: Vec<TokenTree> = ts.into_iter().collect();
    let mut i = 0;
    while i < toks.len() {
        if let TokenTree::Ident(id) = &toks[i] {
            if id == "compile_error" && i + 2 < toks.len() {
                if let (TokenTree::Punct(p), TokenTree::Group(g)) = (&toks[i + 1], &toks[i + 2]) {
                    if p.as_char() == '!' {
                        let msg = match syn::parse2::<syn::LitStr>(g.stream()) {
                            Ok(l) => l.value(),
                            Err(_) => g.stream().to_string(),
                        };
                        out.push(msg);
                        i += 3;
                        continue;
                    }
                }
            }
        }
        if let TokenTree::Group(g) = &toks[i] {
            compile_errors(g.stream(), out);
        }
        i += 1;
    }
}

pub fn run_generate_source(source: &str) -> Analysis {
    let ts = match TokenStream::from_str(source) {
        Ok(ts) => ts,
        Err(e) => {
            return Analysis { source: source.to_string(), outcome: Outcome::Unparsable(e.to_string()), graph: None, output: String::new() }
        }
    };
    if syn::parse2::<syn::ItemEnum>(ts.clone()).is_err() {
        // rustc recovers from many syntax errors inside an enum (a forgotten comma between variants, `A(dyn)`,
        // `A(u8 = 3)`) and still hands the item to the derive: token streams with a top-level `enum` keyword are
        // enum inputs even when syn cannot parse them. Anything else (structs, loose tokens) is not.
        let has_enum_keyword = ts.clone().into_iter().any(|t| matches!(&t, proc_macro2::TokenTree::Ident(i) if i == "enum"));
        if !has_enum_keyword {
            return Analysis { source: source.to_string(), outcome: Outcome::Unparsable("not an enum".into()), graph: None, output: String::new() };
        }
    }
    logos_codegen::verif::clear();
    let res = catch_unwind(AssertUnwindSafe(|| logos_codegen::generate(ts)));
    let graph = logos_codegen::verif::take().map(convert_graph);
    match res {
        Err(payload) => {
            let mut msg = if let Some(s) = payload.downcast_ref::<String>() {
                s.clone()
            } else if let Some(s) = payload.downcast_ref::<&str>() {
                s.to_string()
            } else {
                "non-string panic".to_string()
            };
            LAST_PANIC.with(|p| {
                if !p.borrow().is_empty() {
                    msg = p.borrow().clone();
                }
            });
            Analysis { source: source.to_string(), outcome: Outcome::Panicked(msg), graph, output: String::new() }
        }
        Ok(out) => {
            let mut errs = vec![];
            compile_errors(out.clone(), &mut errs);
            let output = out.to_string();
            let outcome = if errs.is_empty() { Outcome::Accepted } else { Outcome::Rejected(errs) };
            Analysis { source: source.to_string(), outcome, graph, output }
        }
    }
}

pub fn run_generate(def: &Def) -> Analysis {
    // The derive only needs the enum item; callbacks are referenced by path and never resolved here.
    let source = def.render();
    // History: a derive is rarely alone in its process. One definition in four is preceded, on the same thread, by a
    // look-alike (same enum name, variant names and pattern spellings; another variant order, another ignore(case)
    // flag, another subpattern body, other priorities or the other source mode), whose result is thrown away: state
    // that the code generator keeps between two derives (caches keyed by too little, counters, lazily initialised
    // tables) then shows in the definition under test, which is judged against its own reference as always.
    let h = source.bytes().fold(0xcbf29ce484222325u64, |h, b| (h ^ b as u64).wrapping_mul(0x100000001b3));
    if h % 4 == 0 {
        if let Some(pre) = look_alike(def, (h >> 8) as usize) {
            let _ = run_generate_source(&pre.render());
        }
    }
    run_generate_source(&source)
}

/// A definition that is spelled almost like `def` but means something else.
pub fn look_alike(def: &Def, choice: usize) -> Option<Def> {
    use vmon::spec::{Lit, PatKind};
    let mut d = def.clone();
    for attempt in 0..5 {
        match (choice + attempt) % 5 {
            0 if def.variants.len() >= 3 && def.raw_variants.is_empty() => return Some(def.rotated_variants(1 + choice % 2)),
            1 if !def.pats.is_empty() => {
                let k = choice % def.pats.len();
                d.pats[k].ignore_case = !d.pats[k].ignore_case;
                return Some(d);
            }
            2 if !def.subpats.is_empty() => {
                for (_, body) in d.subpats.iter_mut() {
                    let mut data = b"(?:".to_vec();
                    data.extend_from_slice(&body.data);
                    data.extend_from_slice(b")|[0-9a-fK]");
                    *body = Lit { bytes: body.bytes, data };
                }
                return Some(d);
            }
            3 if def.pats.iter().filter(|p| p.kind != PatKind::Skip).count() >= 2 => {
                let idx: Vec<usize> = (0..def.pats.len()).filter(|&i| def.pats[i].kind != PatKind::Skip).collect();
                let (a, b) = (idx[choice % idx.len()], idx[(choice + 1) % idx.len()]);
                let (pa, pb) = (def.pats[a].priority, def.pats[b].priority);
                if pa != pb {
                    d.pats[a].priority = pb;
                    d.pats[b].priority = pa;
                    return Some(d);
                }
            }
            4 => {
                d.utf8 = !def.utf8;
                return Some(d);
            }
            _ => {}
        }
    }
    None
}

pub fn describe_ref_error(e: &RefError) -> String {
    match e {
        RefError::Syntax(l, m) => format!("leaf {l}: reference rejects pattern: {m}"),
        RefError::UndefinedSubpattern(l, n) => format!("leaf {l}: undefined subpattern {n}"),
        RefError::NoUniversalStart(l) => format!("leaf {l}: look-behind at pattern start (no universal start state)"),
        RefError::TooLarge(l) => format!("leaf {l}: reference automaton too large"),
    }
}

pub fn build_reference(def: &Def) -> Result<Reference, RefError> {
    Reference::build(def)
}
