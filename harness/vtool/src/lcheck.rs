//! L-level checks: thousands of generated definitions through the real `generate()`,
//! captured graph versus reference.

use std::sync::atomic::{AtomicUsize, Ordering};
use std::sync::Mutex;

use serde_json::{json, Value};
use vmon::gen;
use vmon::graph::{GError, GraphData, Shapes};
use vmon::prio;
use vmon::product;
use vmon::refa::{self, Comp, RefError, Reference, EOI};
use vmon::rng::Rng;
use vmon::spec::{Def, PatKind};
use vmon::utf8;

use crate::analyze::{self, Analysis, Outcome};

pub const PRODUCT_CAP: usize = 300_000;

#[derive(Default)]
pub struct DefReport {
    pub name: String,
    pub family: String,
    pub accepted: bool,
    pub rejected: bool,
    pub nontrivial: bool,
    pub violations: Vec<Value>,
    pub inconclusive: Option<String>,
    pub tuples: usize,
    pub transitions: usize,
    pub shapes: Option<Shapes>,
    pub sample: Option<Value>,
    pub extra_count: usize,
    pub partial_determined: usize,
}

pub fn run_parallel<T: Send>(n: usize, threads: usize, f: impl Fn(usize) -> T + Sync) -> Vec<T> {
    let next = AtomicUsize::new(0);
    let out: Mutex<Vec<(usize, T)>> = Mutex::new(Vec::with_capacity(n));
    std::thread::scope(|sc| {
        for _ in 0..threads.max(1) {
            sc.spawn(|| loop {
                let i = next.fetch_add(1, Ordering::Relaxed);
                if i >= n {
                    break;
                }
                let r = f(i);
                out.lock().unwrap().push((i, r));
            });
        }
    });
    let mut v = out.into_inner().unwrap();
    v.sort_by_key(|(i, _)| *i);
    v.into_iter().map(|(_, r)| r).collect()
}

pub fn violation(prop: &str, rule: &str, detail: &str, def: &Def, path: Option<&[u8]>, unit: Option<usize>) -> Value {
    json!({
        "property": prop, "level": "L", "rule": rule, "detail": detail,
        "definition": def.to_json(),
        "witness_hex": path.map(vmon::spec::hex),
        "witness_text": path.map(|p| String::from_utf8_lossy(p).to_string()),
        "unit": unit,
    })
}

fn base_report(def: &Def, a: &Analysis) -> DefReport {
    DefReport {
        name: def.name.clone(),
        family: def.family.clone(),
        accepted: a.outcome == Outcome::Accepted,
        rejected: matches!(a.outcome, Outcome::Rejected(_)),
        ..Default::default()
    }
}

fn outcome_json(a: &Analysis) -> Value {
    match &a.outcome {
        Outcome::Accepted => json!("accepted"),
        Outcome::Rejected(m) => json!({"rejected": m.iter().map(|s| s.chars().take(160).collect::<String>()).collect::<Vec<_>>()}),
        Outcome::Panicked(m) => json!({"panicked": m}),
        Outcome::Unparsable(m) => json!({"unparsable": m}),
    }
}

/// Leaf-order sanity: the captured leaves must correspond to the spec's patterns.
fn leaves_consistent(def: &Def, g: &GraphData) -> bool {
    if g.leaves.len() != def.pats.len() {
        return false;
    }
    def.pats.iter().zip(&g.leaves).all(|(p, l)| match p.kind {
        PatKind::Skip => l.kind == "::<skip>",
        _ => l.kind.starts_with(&format!("::V{}", p.variant)),
    })
}

/// Product check of an accepted definition; findings are attributed to `only` (if Some: keep only
/// findings of these properties) and renamed to `as_prop` (if Some).
pub fn product_report(def: &Def, a: &Analysis, only: Option<&[&str]>, as_prop: Option<&str>, rep: &mut DefReport) {
    product_report_with(def, a, only, as_prop, rep, false)
}

/// As `product_report`; `partial` adds the partial-lexing rules (C07) of `product::check_with`.
pub fn product_report_with(def: &Def, a: &Analysis, only: Option<&[&str]>, as_prop: Option<&str>, rep: &mut DefReport, partial: bool) {
    let Some(g) = &a.graph else {
        rep.inconclusive = Some("no captured graph".into());
        return;
    };
    if !leaves_consistent(def, g) {
        rep.inconclusive = Some("captured leaves do not line up with the specification (harness)".into());
        return;
    }
    let reference = match analyze::build_reference(def) {
        Ok(r) => r,
        Err(e) => {
            rep.inconclusive = Some(format!("reference unavailable: {}", analyze::describe_ref_error(&e)));
            return;
        }
    };
    let prio = g.priorities();
    let (findings, stats) = product::check_with(g, &reference, &prio, PRODUCT_CAP, if partial { Some(def.has_look()) } else { None });
    rep.extra_count += stats.partial_points;
    rep.partial_determined += stats.partial_determined;
    rep.tuples = stats.tuples;
    rep.transitions = stats.transitions;
    rep.shapes = Some(g.shapes());
    if stats.capped {
        rep.inconclusive = Some(format!("product exploration capped at {PRODUCT_CAP} tuples"));
    }
    rep.nontrivial = stats.tuples > 1;
    for f in findings {
        if let Some(only) = only {
            if !only.contains(&f.prop) {
                continue;
            }
        }
        let prop = as_prop.unwrap_or(f.prop);
        rep.violations.push(violation(prop, f.rule, &f.detail, def, Some(&f.path), f.unit));
    }
    if !stats.ambiguous_groups.is_empty() && only.map(|o| o.contains(&"C08")).unwrap_or(true) {
        let prop = as_prop.unwrap_or("C08");
        rep.violations.push(violation(prop, "accepted-with-equal-priority-overlap",
            &format!("accepted definition has reference tuples where leaves {:?} match the same text with equal top priority", stats.ambiguous_groups), def, None, None));
    }
}

fn def_sample(def: &Def, a: &Analysis, rep: &DefReport) -> Value {
    json!({"family": def.family, "source": def.render(), "outcome": outcome_json(a), "product_tuples": rep.tuples,
        "graph_states": a.graph.as_ref().map(|g| g.states.len())})
}

// ------------------------------------------------------------------------------------------------
// per-property definition checkers

fn mixed_def(seed: u64, i: usize) -> Def {
    let curated = gen::f7_curated();
    if i < curated.len() {
        let mut d = curated[i].clone();
        d.name = format!("D{i}");
        return d;
    }
    let mut rng = Rng::derive(seed, i as u64);
    gen::mixed(&mut rng, &format!("D{i}"), i)
}

// A discrepancy between the graph and the reference that changes which tokens are produced also
// changes where errors start and end (and vice versa), so both checks adopt both rule groups.
pub fn check_c01(seed: u64, i: usize) -> DefReport {
    generic_product(seed, i, &["C01", "C02"], "C01")
}
pub fn check_c02(seed: u64, i: usize) -> DefReport {
    generic_product(seed, i, &["C01", "C02"], "C02")
}

fn generic_product(seed: u64, i: usize, props: &[&str], as_prop: &str) -> DefReport {
    let def = mixed_def(seed, i);
    let a = analyze::run_generate(&def);
    let mut rep = base_report(&def, &a);
    if rep.accepted {
        product_report(&def, &a, Some(props), Some(as_prop), &mut rep);
    }
    rep.sample = Some(def_sample(&def, &a, &rep));
    rep
}

/// C07 (L): per accepted definition and over all inputs, the condition under which the generated code of a partial
/// lexer commits at the end of its buffer (graph state without transitions) versus reference determinedness.
pub fn check_c07(seed: u64, i: usize) -> DefReport {
    let def = mixed_def(seed, i);
    let a = analyze::run_generate(&def);
    let mut rep = base_report(&def, &a);
    if rep.accepted {
        product_report_with(&def, &a, Some(&["C07"]), None, &mut rep, true);
        rep.nontrivial = rep.partial_determined > 0;
    }
    rep.sample = Some(def_sample(&def, &a, &rep));
    rep
}

/// C03 (L): accepted => no pattern matches the empty string (two formulations) + structural rules.
pub fn check_c03(seed: u64, i: usize) -> DefReport {
    // bias towards empty-matching candidates: every third definition gets an extra candidate pattern
    let mut def = mixed_def(seed, i);
    let mut rng = Rng::derive(seed ^ 0xC03, i as u64);
    if i % 3 == 0 {
        let t = rng.pick_str(&["a*", "(a|)", "x?", "(ab)*", "a*$", "(?-u:\\b)", "$", "a?b?", "(a*)*", "\\z", "(?m:$)", "[a-c]*x?", "(|a)b?", "(?-u:\\B)", "a{0}", "(?:a|b*)"]);
        def.push(vmon::spec::Pat::regex(t, 0).prio(1 + rng.below(50)));
        def.normalize();
    }
    let a = analyze::run_generate(&def);
    let mut rep = base_report(&def, &a);
    if rep.accepted {
        product_report(&def, &a, Some(&["C03"]), None, &mut rep);
        if let Ok(reference) = analyze::build_reference(&def) {
            for (leaf, c) in reference.comps.iter().enumerate() {
                // formulation 1: the start state reports on its very first unit
                let empty = (0..=256).any(|u| c.reports(c.next(c.start, u)));
                if empty {
                    rep.violations.push(violation("C03", "accepted-empty-match", &format!("leaf {leaf} ({}) matches the empty string but the definition was accepted", c.describe), &def, Some(b""), None));
                }
                // formulation 2: regex crate meta engine
                let p = &def.pats[leaf];
                if p.kind != PatKind::Token {
                    if let Ok(subs) = refa::resolve_subpatterns(&def) {
                        if let Ok(text) = refa::inline_subpatterns(&refa::lit_regex_text(&p.lit), &subs) {
                            if let Ok(re) = regex::bytes::RegexBuilder::new(&format!("^(?:{text})")).unicode(!p.lit.bytes).case_insensitive(p.ignore_case).build() {
                                let m_empty = re.find(b"").map(|m| m.end() == 0).unwrap_or(false)
                                    || re.find(b"a").map(|m| m.end() == 0).unwrap_or(false)
                                    || re.find(b" ").map(|m| m.end() == 0).unwrap_or(false);
                                rep.extra_count += 1;
                                if m_empty {
                                    rep.violations.push(violation("C03", "accepted-empty-match-meta", &format!("regex crate finds an empty match of leaf {leaf} pattern {text:?}"), &def, Some(b""), None));
                                }
                            }
                        }
                    }
                }
            }
        }
    } else if rep.rejected {
        rep.nontrivial = true;
    }
    rep.sample = Some(def_sample(&def, &a, &rep));
    rep
}

/// Search a reporting state of `c` reachable along a byte string that is not valid UTF-8.
pub fn non_utf8_match(c: &Comp) -> Option<Vec<u8>> {
    use std::collections::{HashMap, VecDeque};
    let mut seen: HashMap<(u32, u8), (u32, u8, u16)> = HashMap::new();
    let mut q = VecDeque::new();
    seen.insert((c.start, utf8::U_START), (u32::MAX, 0, 0));
    q.push_back((c.start, utf8::U_START));
    while let Some((s, u)) = q.pop_front() {
        for unit in 0..=256usize {
            let t = c.next(s, unit);
            if t == refa::DEAD {
                continue;
            }
            if c.reports(t) && u != utf8::U_START {
                // reconstruct
                let mut path = vec![];
                let mut cur = (s, u);
                while let Some(&(ps, pu, via)) = seen.get(&cur) {
                    if ps == u32::MAX {
                        break;
                    }
                    path.push(via as u8);
                    cur = (ps, pu);
                }
                path.reverse();
                return Some(path);
            }
            if unit == EOI {
                continue;
            }
            let nu = if u == utf8::U_ERR { utf8::U_ERR } else { utf8::step(u, unit as u8) };
            if !c.crp(t) {
                continue;
            }
            if !seen.contains_key(&(t, nu)) {
                seen.insert((t, nu), (s, u, unit as u16));
                q.push_back((t, nu));
            }
        }
    }
    None
}

/// C04 (L): accepted str-mode definition => every pattern and subpattern is UTF-8 only.
pub fn check_c04(seed: u64, i: usize) -> DefReport {
    let mut rng = Rng::derive(seed ^ 0xC04, i as u64);
    let name = format!("D{i}");
    // candidates: byte-ish patterns forced into str mode, plus the ordinary mix in str mode
    let mut def = match i % 4 {
        0 => gen::f4_bytes(&mut rng, &name),
        1 => gen::f10_subpat(&mut rng, &name),
        2 => gen::f8_reject(&mut rng, &name).0,
        _ => gen::mixed(&mut rng, &name, i / 4),
    };
    def.utf8 = true;
    if i % 5 == 2 {
        // non-UTF-8 candidates in every position: token, regex, skip (plain and with arguments)
        let cands: &[&[u8]] = &[b"\xC3", b"\xFF", b"a\x80", b"(?-u:.)", b"(?-u:[^a])", b"(?-u:[\\x80-\\xBF])+", b"\xE2\x82", b"(?s-u:.)", b"(?-u:\\xC3)"];
        let c: &[u8] = *rng.pick(cands);
        let lit = if std::str::from_utf8(c).is_ok() && rng.chance(1, 2) { vmon::spec::Lit::s(std::str::from_utf8(c).unwrap()) } else { vmon::spec::Lit::b(c) };
        let kind = match rng.below(3) { 0 => PatKind::Skip, 1 => PatKind::Regex, _ => PatKind::Token };
        let mut p = vmon::spec::Pat::new(kind, lit, 0);
        if kind == PatKind::Skip && rng.chance(1, 2) {
            p.priority = Some(rng.range(1, 60));
        }
        if kind != PatKind::Skip {
            p.priority = Some(60 + rng.below(30));
        }
        def.push(p);
        def.normalize();
    }
    if i % 8 == 1 {
        // an unused or used non-UTF-8 subpattern
        let t: &[u8] = *rng.pick(&[&b"\xFF"[..], &b"a|\xC3"[..], &b"[^a]"[..], &b"."[..], &b"\xE2\x82\xAC"[..], &b"(?s:.)"[..]]);
        def.subpats.insert(0, (format!("nb{}", i), vmon::spec::Lit::b(t)));
        if rng.chance(1, 2) {
            def.push(vmon::spec::Pat::regex(&format!("q(?&nb{})", i), 0).prio(77));
            def.normalize();
        }
    }
    let a = analyze::run_generate(&def);
    let mut rep = base_report(&def, &a);
    if rep.accepted {
        match analyze::build_reference(&def) {
            Ok(reference) => {
                rep.nontrivial = true;
                for (leaf, c) in reference.comps.iter().enumerate() {
                    rep.tuples += c.nstates();
                    if let Some(w) = non_utf8_match(c) {
                        rep.violations.push(violation("C04", "accepted-pattern-matches-invalid-utf8",
                            &format!("str-mode definition accepted although leaf {leaf} ({}) matches a byte string that is not valid UTF-8", c.describe), &def, Some(&w), None));
                    }
                }
                if let Ok(subs) = refa::resolve_subpatterns(&def) {
                    for (name, text) in subs {
                        if let Ok(c) = Comp::from_regex(&text, true, false) {
                            rep.tuples += c.nstates();
                            if let Some(w) = non_utf8_match(&c) {
                                rep.violations.push(violation("C04", "accepted-subpattern-matches-invalid-utf8",
                                    &format!("str-mode definition accepted although subpattern {name} = {text:?} matches a byte string that is not valid UTF-8"), &def, Some(&w), None));
                            }
                        }
                    }
                }
            }
            Err(e) => rep.inconclusive = Some(analyze::describe_ref_error(&e)),
        }
    } else if rep.rejected {
        rep.nontrivial = matches!(&a.outcome, Outcome::Rejected(m) if m.iter().any(|x| x.contains("UTF-8")));
    }
    rep.sample = Some(def_sample(&def, &a, &rep));
    rep
}

/// C08 (L): ambiguity reported iff the reference product has an equal-top-priority overlap.
pub fn check_c08(seed: u64, i: usize) -> DefReport {
    let mut rng = Rng::derive(seed ^ 0xC08, i as u64);
    let name = format!("D{i}");
    let def = match i % 3 {
        0 => {
            // only the ambiguity-shaped categories
            let mut d;
            loop {
                let (dd, cat) = gen::f8_reject(&mut rng, &name);
                d = dd;
                if cat == "ambiguity?" {
                    break;
                }
            }
            d
        }
        1 => {
            // mixed definitions with priorities removed to provoke overlaps
            let mut d = gen::mixed(&mut rng, &name, i / 3);
            for p in d.pats.iter_mut() {
                if rng.chance(1, 2) {
                    p.priority = None;
                }
            }
            d
        }
        _ if i % 9 == 2 => {
            // byte-mode definitions with default priorities (literal runs of every kind next to class patterns)
            let mut d = gen::f4_bytes(&mut rng, &name);
            for p in d.pats.iter_mut() {
                p.priority = None;
            }
            d
        }
        _ => gen::mixed(&mut rng, &name, i / 3),
    };
    let a = analyze::run_generate(&def);
    let mut rep = base_report(&def, &a);
    let Some(g) = &a.graph else {
        rep.sample = Some(def_sample(&def, &a, &rep));
        return rep;
    };
    if !leaves_consistent(&def, g) {
        // some pattern failed to parse and was dropped by logos: ambiguity question not comparable
        rep.sample = Some(def_sample(&def, &a, &rep));
        return rep;
    }
    let reference = match analyze::build_reference(&def) {
        Ok(r) => r,
        Err(e) => {
            if rep.accepted {
                rep.inconclusive = Some(analyze::describe_ref_error(&e));
            }
            rep.sample = Some(def_sample(&def, &a, &rep));
            return rep;
        }
    };
    // graphs with other structural errors (empty match / no universal start) stop before the
    // disambiguation pass; nothing to compare there
    let other_error = g.errors.iter().any(|e| !matches!(e, GError::Disambiguation(_)));
    if other_error {
        rep.sample = Some(def_sample(&def, &a, &rep));
        return rep;
    }
    // priorities as the user wrote them: explicit ones as given, token defaults by the documented
    // rule (2 x bytes); only default regex priorities are taken from the capture (their rule is C09's)
    let mut prio = g.priorities();
    for (leaf, p) in def.pats.iter().enumerate() {
        if let Some(e) = p.priority {
            prio[leaf] = e;
        } else if p.kind == PatKind::Token {
            prio[leaf] = 2 * p.lit.data.len();
        } else if let Ok(subs) = refa::resolve_subpatterns(&def) {
            // default regex priority by the documented rule where it is unambiguous
            if let Ok(text) = refa::inline_subpatterns(&refa::lit_regex_text(&p.lit), &subs) {
                if let Ok(info) = prio::ast_info(&text) {
                    if !info.fuzzy && !info.maybe_empty_class && !p.lit.bytes {
                        prio[leaf] = 2 * info.units;
                    } else if p.lit.bytes && !text.contains("(?") && info.units == info.units_valid_runs_as_chars {
                        prio[leaf] = 2 * info.units;
                    }
                }
            }
        }
    }
    let (groups, tuples, capped) = product::reference_ambiguities(&reference, &prio, PRODUCT_CAP);
    rep.tuples = tuples;
    if capped {
        rep.inconclusive = Some("reference product capped".into());
        rep.sample = Some(def_sample(&def, &a, &rep));
        return rep;
    }
    let mut ref_groups: Vec<Vec<usize>> = groups.iter().map(|(g, _)| g.clone()).collect();
    ref_groups.sort();
    let mut logos_groups: Vec<Vec<usize>> = g.errors.iter().filter_map(|e| if let GError::Disambiguation(l) = e { Some(l.clone()) } else { None }).collect();
    logos_groups.sort();
    logos_groups.dedup();
    let msgs: Vec<String> = match &a.outcome {
        Outcome::Rejected(m) => m.clone(),
        _ => vec![],
    };
    let simultaneous = msgs.iter().filter(|m| m.contains("can match simultaneously")).count();
    rep.nontrivial = !ref_groups.is_empty() || !logos_groups.is_empty();
    if !ref_groups.is_empty() && rep.accepted {
        let (grp, w) = &groups[0];
        rep.violations.push(violation("C08", "ambiguity-not-reported", &format!("leaves {grp:?} all fully match the witness with equal top priority but the definition was accepted"), &def, Some(w), None));
    }
    if ref_groups.is_empty() && simultaneous > 0 {
        rep.violations.push(violation("C08", "spurious-ambiguity", "derive reports 'can match simultaneously' but no string is matched by two top-priority patterns", &def, None, None));
    }
    if !ref_groups.is_empty() && !rep.accepted && simultaneous == 0 && !msgs.is_empty() {
        // rejected for some other reason only: fine (not spurious, not missing)
    }
    if ref_groups != logos_groups && (simultaneous > 0 || !ref_groups.is_empty()) && !rep.accepted {
        // the diagnostics must name exactly the conflicting sets
        if simultaneous > 0 || msgs.is_empty() {
            rep.violations.push(violation("C08", "conflict-groups-differ", &format!("reference conflict groups {ref_groups:?}, derive reports {logos_groups:?}"), &def, groups.first().map(|(_, w)| w.as_slice()), None));
        }
    }
    // every leaf of every group must be named in a diagnostic
    if simultaneous > 0 {
        // one diagnostic per leaf per reported group (groups may repeat, one per automaton state)
        let expected: usize = g.errors.iter().map(|e| if let GError::Disambiguation(l) = e { l.len() } else { 0 }).sum();
        if simultaneous != expected {
            rep.violations.push(violation("C08", "diagnostic-count", &format!("{simultaneous} 'can match simultaneously' diagnostics for groups {logos_groups:?}"), &def, None, None));
        }
    }
    rep.sample = Some(json!({"source": def.render(), "outcome": outcome_json(&a), "reference_groups": ref_groups, "derive_groups": logos_groups,
        "witness": groups.first().map(|(_, w)| String::from_utf8_lossy(w).to_string())}));
    rep
}

/// C09 (L): captured priorities versus the documented rule.
pub fn check_c09(seed: u64, i: usize) -> DefReport {
    let mut rng = Rng::derive(seed ^ 0xC09, i as u64);
    let name = format!("D{i}");
    let mut def = match i % 6 {
        0 => gen::f3_unicode(&mut rng, &name),
        1 => gen::f6_loops(&mut rng, &name),
        2 => gen::f11_literal(&mut rng, &name),
        3 => gen::f5_look(&mut rng, &name),
        4 => gen::f4_bytes(&mut rng, &name),
        _ if (i / 6) % 2 == 1 => gen::f1x_exotic(&mut rng, &name),
        _ => gen::f1_soup(&mut rng, &name),
    };
    // default priorities on half of the patterns, explicit on the rest
    for p in def.pats.iter_mut() {
        if rng.chance(1, 2) {
            p.priority = None;
        }
    }
    // consequence check: a literal token plus a regex that matches its text
    if i % 4 == 0 {
        let lits = ["ab", "abc", "if", "a", "x1", "ßs", "--", "é"];
        let res = ["[a-z]+", "[a-zé]+[0-9]?", "a.?c?", "(if|else)", "[a-z][a-z0-9]*", "\\w+", "[^ ]+", "-+", "a(b|c)?", "..?.?", "(?i:AB)"];
        def.push(vmon::spec::Pat::token(rng.pick_str(&lits), 0));
        def.push(vmon::spec::Pat::regex(rng.pick_str(&res), 0));
        if rng.chance(1, 2) {
            // a pattern of exactly the literal's default priority, and a less specific one declared last
            def.push(vmon::spec::Pat::regex(rng.pick_str(&["[a-z][a-z]", "i[a-z]", "..", "[a-z]{3}", "a[a-z]", "[a-zß][a-zß]"]), 0));
            def.push(vmon::spec::Pat::regex(rng.pick_str(&["[a-z]+", "\\w+", "[^ ]+"]), 0));
        }
        def.normalize();
    }
    let a = analyze::run_generate(&def);
    let mut rep = base_report(&def, &a);
    let Some(g) = &a.graph else {
        rep.sample = Some(def_sample(&def, &a, &rep));
        return rep;
    };
    if !leaves_consistent(&def, g) {
        rep.sample = Some(def_sample(&def, &a, &rep));
        return rep;
    }
    let subs = refa::resolve_subpatterns(&def).unwrap_or_default();
    let mut checked = vec![];
    for (leaf, p) in def.pats.iter().enumerate() {
        let got = g.leaves[leaf].priority;
        if let Some(e) = p.priority {
            rep.extra_count += 1;
            if got != e {
                rep.violations.push(violation("C09", "explicit-priority-ignored", &format!("leaf {leaf}: priority = {e} given, captured priority {got}"), &def, None, None));
            }
            continue;
        }
        match p.kind {
            PatKind::Token => {
                rep.extra_count += 1;
                let e = 2 * p.lit.data.len();
                if got != e {
                    rep.violations.push(violation("C09", "token-priority", &format!("leaf {leaf}: token of {} bytes has priority {got}, expected {e}", p.lit.data.len()), &def, None, None));
                }
                checked.push(json!({"leaf": leaf, "kind": "token", "priority": got}));
            }
            _ => {
                let Ok(text) = refa::inline_subpatterns(&refa::lit_regex_text(&p.lit), &subs) else { continue };
                let Ok(info) = prio::ast_info(&text) else { continue };
                rep.extra_count += 1;
                rep.nontrivial = true;
                let fuzzy = info.fuzzy || p.lit.bytes;
                let comp = Comp::from_regex(&text, !p.lit.bytes, p.ignore_case).ok();
                let sem_chars = comp.as_ref().and_then(|c| c.min_chars_to_match());
                let sem_bytes = comp.as_ref().and_then(|c| c.min_bytes_to_match());
                checked.push(json!({"leaf": leaf, "pattern": text, "priority": got, "ast_units": info.units, "min_chars": sem_chars, "assertion": info.has_assertion}));
                if got % 2 != 0 {
                    rep.violations.push(violation("C09", "odd-default-priority", &format!("leaf {leaf}: default priority {got} is odd"), &def, None, None));
                    continue;
                }
                if !fuzzy && info.maybe_empty_class {
                    // a set-operation class may be empty: the documented (structural) rule counts it as one class;
                    // where it is not empty the shortest match gives the same number. Either reading is accepted,
                    // neither is a violation (the semantic minimum alone would be stricter than the statement).
                    if got != 2 * info.units && sem_chars.map(|sc| 2 * sc) != Some(got) {
                        rep.violations.push(violation("C09", "regex-priority-structural", &format!("leaf {leaf}: pattern {text:?} has default priority {got}, the documented rule gives 2 x {} (AST recursion; shortest match {sem_chars:?} characters)", info.units), &def, None, None));
                    }
                } else if !fuzzy {
                    if got != 2 * info.units {
                        rep.violations.push(violation("C09", "regex-priority-structural", &format!("leaf {leaf}: pattern {text:?} has default priority {got}, the documented rule gives 2 x {} (AST recursion)", info.units), &def, None, None));
                    }
                    if let Some(sc) = sem_chars {
                        if !info.has_assertion && got != 2 * sc {
                            rep.violations.push(violation("C09", "regex-priority-semantic", &format!("leaf {leaf}: pattern {text:?} has default priority {got}, shortest match has {sc} characters"), &def, None, None));
                        }
                        if info.has_assertion && 2 * sc < got {
                            rep.violations.push(violation("C09", "regex-priority-semantic-assert", &format!("leaf {leaf}: pattern {text:?} has default priority {got} > 2 x shortest match {sc}"), &def, None, None));
                        }
                    }
                } else if p.lit.bytes && !text.contains("(?") {
                    // byte-string pattern without inline flags: a literal byte is one "literal character"; the
                    // only other defensible reading counts maximal valid UTF-8 runs in characters
                    if got != 2 * info.units && got != 2 * info.units_valid_runs_as_chars {
                        rep.violations.push(violation("C09", "regex-priority-bytes", &format!("leaf {leaf}: byte pattern {text:?} has default priority {got}; the rule gives 2 x {} (bytes) or 2 x {} (valid UTF-8 runs as characters)", info.units, info.units_valid_runs_as_chars), &def, None, None));
                    }
                } else if let (Some(sc), Some(sb)) = (sem_chars, sem_bytes) {
                    // a possibly empty set-operation class counts as one class structurally although no match traverses
                    // it: there the lower bound is the structural count, not the shortest match
                    let lo = if info.maybe_empty_class { sc.min(info.units).min(info.units_valid_runs_as_chars) } else { sc };
                    if !info.has_assertion && !(2 * lo <= got && got <= 2 * sb.max(info.units)) {
                        rep.violations.push(violation("C09", "regex-priority-range", &format!("leaf {leaf}: pattern {text:?} has default priority {got}, outside 2 x [{sc} chars, {sb} bytes]"), &def, None, None));
                    }
                }
            }
        }
    }
    // consequence: a literal never loses on its own text to a default-priority regex
    if rep.accepted {
        if let Ok(reference) = analyze::build_reference(&def) {
            let prio_v = g.priorities();
            for (leaf, p) in def.pats.iter().enumerate() {
                if p.kind == PatKind::Token && !p.ignore_case && p.priority.is_none() {
                    let text = &p.lit.data;
                    if def.utf8 && std::str::from_utf8(text).is_err() {
                        continue;
                    }
                    if let refa::Attempt::Match { end, leaves, .. } = reference.attempt(text, 0, &prio_v) {
                        if end == text.len() && leaves.contains(&leaf) && leaves.len() > 1 {
                            rep.violations.push(violation("C09", "literal-ties-without-ambiguity-error", &format!("token leaf {leaf} ties on its own text with leaves {leaves:?} at the top priority, yet the definition was accepted"), &def, Some(text), None));
                        }
                        if end == text.len() && !leaves.contains(&leaf) {
                            // some other leaf wins the literal's own text
                            let w = leaves[0];
                            if def.pats[w].priority.is_none() && def.pats[w].kind != PatKind::Token {
                                rep.violations.push(violation("C09", "literal-beaten-by-default-regex", &format!("token leaf {leaf} loses on its own text to default-priority leaf {w}"), &def, Some(text), None));
                            }
                        }
                    }
                }
            }
        }
    }
    rep.sample = Some(json!({"source": def.render(), "priorities": checked}));
    rep
}

/// C10 (L): literal tokens verbatim; ignore(case) == (?i)
pub fn check_c10(seed: u64, i: usize) -> DefReport {
    let mut rng = Rng::derive(seed ^ 0xC10, i as u64);
    let def = gen::f11_literal(&mut rng, &format!("D{i}"));
    let a = analyze::run_generate(&def);
    let mut rep = base_report(&def, &a);
    if rep.accepted {
        product_report(&def, &a, None, Some("C10"), &mut rep);
        // "nothing else about the definition changes": same definition without the flag
        if def.pats.iter().any(|p| p.ignore_case) {
            let mut plain = def.clone();
            for p in plain.pats.iter_mut() {
                p.ignore_case = false;
            }
            let b = analyze::run_generate(&plain);
            if let (Some(g1), Some(g2)) = (&a.graph, &b.graph) {
                if b.outcome == Outcome::Accepted && g1.leaves.len() == g2.leaves.len() {
                    for (l, (x, y)) in g1.leaves.iter().zip(&g2.leaves).enumerate() {
                        if x.priority != y.priority || x.kind != y.kind || x.has_callback != y.has_callback {
                            rep.violations.push(violation("C10", "flag-changes-more-than-language", &format!("leaf {l}: with ignore(case) priority/kind = {}/{}, without = {}/{}", x.priority, x.kind, y.priority, y.kind), &def, None, None));
                        }
                    }
                }
            }
        }
    } else if rep.rejected {
        // a plain literal token can only be rejected for non-UTF-8 content in str mode or an
        // overlap with the second pattern / helper token
        let msgs = match &a.outcome { Outcome::Rejected(m) => m.clone(), _ => vec![] };
        let explained = msgs.iter().all(|m| m.contains("UTF-8") || m.contains("can match simultaneously") || m.contains("empty string"));
        if !explained {
            rep.violations.push(violation("C10", "literal-rejected", &format!("literal definition rejected: {msgs:?}"), &def, None, None));
        }
    }
    rep.sample = Some(def_sample(&def, &a, &rep));
    rep
}

/// The definition with every `(?&name)` reference written out by my own inliner and no subpatterns left.
fn inlined_twin(def: &Def) -> Option<Def> {
    let subs = refa::resolve_subpatterns(def).ok()?;
    let mut inl = def.clone();
    for p in inl.pats.iter_mut() {
        if p.kind == PatKind::Token {
            continue;
        }
        let text = refa::inline_subpatterns(&refa::lit_regex_text(&p.lit), &subs).ok()?;
        if p.lit.bytes && !text.is_ascii() {
            // a byte-string literal cannot spell the non-ASCII text of a str subpattern without changing its meaning
            // (raw bytes would be re-read one by one): no written-out twin for this definition
            return None;
        }
        p.lit = if p.lit.bytes { vmon::spec::Lit::b(text.as_bytes()) } else { vmon::spec::Lit::s(&text) };
    }
    inl.subpats.clear();
    Some(inl)
}

/// C11 (L): subpattern references == scoped textual inclusion
pub fn check_c11(seed: u64, i: usize) -> DefReport {
    let mut rng = Rng::derive(seed ^ 0xC11, i as u64);
    let mut def = gen::f10_subpat(&mut rng, &format!("D{i}"));
    if i % 13 == 7 && def.family != "F10-undef" && def.family != "F10-forward" {
        // a subpattern that is only a regex once it is wrapped in the group it is substituted with: its
        // alternation / inline flags would leak into the referencing pattern ("scoped" inclusion)
        let body = rng.pick_str(&["a)|(?:b", "a)(?i)(?:", "x))((y", "k)+(?:", "[0-9])|(?s:."]);
        def.subpats.push(("leak".into(), vmon::spec::Lit::s(body)));
        def.push(vmon::spec::Pat::regex("c(?&leak)d", 0).prio(90 + rng.below(9)));
        def.normalize();
        def.family = "F10-leak".into();
    }
    let a = analyze::run_generate(&def);
    let mut rep = base_report(&def, &a);
    if def.family == "F10-greedy" {
        if rep.accepted {
            rep.violations.push(violation("C11", "greedy-subpattern-accepted", "an unbounded greedy dot repetition written inside a subpattern was accepted without allow_greedy although the written-out pattern is rejected", &def, None, None));
        } else if rep.rejected {
            rep.nontrivial = true;
        }
        rep.sample = Some(def_sample(&def, &a, &rep));
        return rep;
    }
    if def.family == "F10-leak" {
        if rep.accepted {
            rep.violations.push(violation("C11", "leaking-subpattern-accepted", "a subpattern whose source is not a regex of its own (unbalanced group) was accepted: its alternation or flags leak into the referencing pattern", &def, None, None));
        } else if rep.rejected {
            rep.nontrivial = true;
        }
        rep.sample = Some(def_sample(&def, &a, &rep));
        return rep;
    }
    let must_reject = def.family == "F10-undef" || def.family == "F10-forward";
    if rep.accepted {
        if must_reject {
            rep.violations.push(violation("C11", "undefined-reference-accepted", "definition with an undefined or forward subpattern reference was accepted", &def, None, None));
        } else {
            product_report(&def, &a, None, Some("C11"), &mut rep);
            // textual inclusion also means: whatever the derive refuses in the written-out pattern (greedy dots, empty
            // matches, unsupported syntax, ...) it refuses in the form that spells it through references
            if let Some(inl) = inlined_twin(&def) {
                let b = analyze::run_generate(&inl);
                rep.extra_count += 1;
                if let Outcome::Rejected(m) = &b.outcome {
                    rep.violations.push(violation("C11", "reference-form-accepted-expanded-form-rejected", &format!("accepted with (?&name) references, but the same definition with every reference written out ({}) is rejected: {:?}",
                        inl.pats.iter().filter(|p| p.kind != PatKind::Token).map(|p| String::from_utf8_lossy(&p.lit.data).to_string()).collect::<Vec<_>>().join(" ; "), m.iter().map(|s| s.chars().take(120).collect::<String>()).collect::<Vec<_>>()), &def, None, None));
                }
            }
        }
    } else if rep.rejected {
        let msgs = match &a.outcome { Outcome::Rejected(m) => m.clone(), _ => vec![] };
        if must_reject {
            rep.nontrivial = true;
            if !msgs.iter().any(|m| m.contains("not found")) {
                rep.violations.push(violation("C11", "undefined-reference-diagnostic", &format!("expected a 'Subpattern `..` not found' diagnostic, got {msgs:?}"), &def, None, None));
            }
        } else if !msgs.is_empty() && msgs.iter().all(|m| m.contains("not found")) {
            rep.violations.push(violation("C11", "defined-reference-rejected", &format!("all references are defined before use, yet: {msgs:?}"), &def, None, None));
        } else if let Some(inl) = inlined_twin(&def) {
            // the other direction of textual inclusion: the written-out definition is accepted, so the reference form may
            // only be refused for a reason that concerns a subpattern as such (its own syntax, its own UTF-8 safety)
            let b = analyze::run_generate(&inl);
            rep.extra_count += 1;
            let about_subpattern = |m: &String| m.to_lowercase().contains("subpattern") || m.contains("UTF-8");
            // a subpattern that is not a regex of its own (used or not) is a reason of its own, whatever the wording of the
            // diagnostic: the rule only speaks when every subpattern source parses by itself (regex-syntax, own Unicode mode)
            let subs_fine = refa::resolve_subpatterns(&def).map(|subs| subs.iter().all(|(_, text)| refa::parse_hir(text, true, false).is_ok())).unwrap_or(false);
            if b.outcome == Outcome::Accepted && subs_fine && !msgs.iter().any(about_subpattern) {
                rep.violations.push(violation("C11", "reference-form-rejected-expanded-form-accepted", &format!("rejected with (?&name) references ({:?}) although the same definition with every reference written out is accepted",
                    msgs.iter().map(|s| s.chars().take(160).collect::<String>()).collect::<Vec<_>>()), &def, None, None));
            }
        }
    }
    rep.sample = Some(def_sample(&def, &a, &rep));
    rep
}

/// C12 (L): both twins (utf8 on / off) pass the product check against the same reference.
pub fn check_c12(seed: u64, i: usize) -> DefReport {
    let mut rng = Rng::derive(seed ^ 0xC12, i as u64);
    let name = format!("D{i}");
    let mut def = match i % 5 {
        0 => gen::f3_unicode(&mut rng, &name),
        1 => gen::f1_soup(&mut rng, &name),
        2 => gen::f2_keywords(&mut rng, &name),
        3 => gen::f10_subpat(&mut rng, &name),
        _ => gen::f6_loops(&mut rng, &name),
    };
    def.utf8 = true;
    if i % 5 == 3 && rng.chance(1, 2) {
        // a str-literal subpattern whose meaning depends on its own Unicode mode
        let t = rng.pick_str(&["\\w+", "[^x]", ".", "\\pL", "[^\\x00-\\x7F]+", "(?i)k", "\\S"]);
        def.subpats.push((format!("uni{i}"), vmon::spec::Lit::s(t)));
        if rng.chance(1, 2) {
            // referenced from a byte-string pattern: the str subpattern keeps its Unicode mode there too
            def.push(vmon::spec::Pat::new(PatKind::Regex, vmon::spec::Lit::b(format!("#(?&uni{i})+").as_bytes()), 0).prio(70 + rng.below(9)));
        } else {
            def.push(vmon::spec::Pat::regex(&format!("#(?&uni{i})"), 0).prio(70 + rng.below(9)));
        }
        def.normalize();
    }
    let mut injected = false;
    if i % 6 == 5 {
        // a pattern that can match invalid UTF-8, in every position a pattern can be written in
        let cands: &[&[u8]] = &[b"\xC3", b"\xFF", b"a\x80", b"(?-u:.)", b"(?-u:[^a])", b"(?-u:[\\x80-\\xBF])+", b"\xE2\x82", b"(?s-u:.)", b"(?-u:\\xC3)", b"[\x80-\xBF]", b"(?-u:\\W)"];
        let c: &[u8] = *rng.pick(cands);
        let lit = if std::str::from_utf8(c).is_ok() && rng.chance(1, 2) { vmon::spec::Lit::s(std::str::from_utf8(c).unwrap()) } else { vmon::spec::Lit::b(c) };
        match rng.below(5) {
            0 | 1 => {
                let mut p = vmon::spec::Pat::new(PatKind::Skip, lit, 0);
                match rng.below(3) {
                    0 => p.priority = Some(rng.below(60)),
                    1 => p.allow_greedy = Some(true),
                    _ => {}
                }
                def.push(p);
            }
            2 => {
                def.push(vmon::spec::Pat::new(PatKind::Regex, lit, 0).prio(60 + rng.below(30)));
            }
            3 => {
                def.push(vmon::spec::Pat::new(PatKind::Token, lit, 0).prio(60 + rng.below(30)));
            }
            _ => {
                def.subpats.insert(0, (format!("nb{i}"), lit));
                if rng.chance(1, 2) {
                    def.push(vmon::spec::Pat::regex(&format!("q(?&nb{i})"), 0).prio(77));
                }
            }
        }
        def.normalize();
        injected = true;
    }
    let a = analyze::run_generate(&def);
    let mut rep = base_report(&def, &a);
    if rep.accepted {
        // accepted in str mode => no pattern and no subpattern may match a byte string that is not valid UTF-8
        if let Ok(reference) = analyze::build_reference(&def) {
            for (leaf, c) in reference.comps.iter().enumerate() {
                if let Some(w) = non_utf8_match(c) {
                    rep.violations.push(violation("C12", "non-utf8-pattern-accepted-in-str-mode",
                        &format!("str-mode definition accepted although leaf {leaf} ({}) matches a byte string that is not valid UTF-8", c.describe), &def, Some(&w), None));
                }
            }
        }
        if let Ok(subs) = refa::resolve_subpatterns(&def) {
            for (name, text) in subs {
                if let Ok(c) = Comp::from_regex(&text, true, false) {
                    if let Some(w) = non_utf8_match(&c) {
                        rep.violations.push(violation("C12", "non-utf8-subpattern-accepted-in-str-mode",
                            &format!("str-mode definition accepted although subpattern {name} = {text:?} matches a byte string that is not valid UTF-8"), &def, Some(&w), None));
                    }
                }
            }
        }
    }
    let _ = injected;
    let mut twin = def.clone();
    twin.utf8 = false;
    let b = analyze::run_generate(&twin);
    match (&a.outcome, &b.outcome) {
        (Outcome::Accepted, Outcome::Accepted) => {
            product_report(&def, &a, None, Some("C12"), &mut rep);
            let mut rep2 = DefReport::default();
            product_report(&twin, &b, None, Some("C12"), &mut rep2);
            rep.tuples += rep2.tuples;
            rep.transitions += rep2.transitions;
            rep.violations.extend(rep2.violations);
            if rep.inconclusive.is_none() {
                rep.inconclusive = rep2.inconclusive;
            }
            // same leaves, same priorities
            if let (Some(g1), Some(g2)) = (&a.graph, &b.graph) {
                if g1.leaves != g2.leaves {
                    rep.violations.push(violation("C12", "twin-leaves-differ", "switching utf8 changed leaf priorities or kinds", &def, None, None));
                }
            }
        }
        (Outcome::Accepted, other) => {
            rep.violations.push(violation("C12", "twin-rejected", &format!("accepted in str mode but with utf8 = false: {other:?}"), &def, None, None));
        }
        (Outcome::Rejected(m), Outcome::Accepted) => {
            // acceptable only when the str-mode rejection is about UTF-8
            rep.nontrivial = true;
            if !m.iter().any(|x| x.contains("UTF-8")) {
                rep.violations.push(violation("C12", "str-rejected-bytes-accepted", &format!("rejected in str mode for a reason unrelated to UTF-8 but accepted in byte mode: {m:?}"), &def, None, None));
            }
        }
        _ => {}
    }
    rep.sample = Some(def_sample(&def, &a, &rep));
    rep
}

pub fn dispatch(prop: &str) -> Option<fn(u64, usize) -> DefReport> {
    Some(match prop {
        "C01" => check_c01,
        "C02" => check_c02,
        "C03" => check_c03,
        "C04" => check_c04,
        "C07" => check_c07,
        "C08" => check_c08,
        "C09" => check_c09,
        "C10" => check_c10,
        "C11" => check_c11,
        "C12" => check_c12,
        _ => return None,
    })
}

pub fn run(prop: &str, seed: u64, count: usize, threads: usize) -> Value {
    let f = dispatch(prop).expect("unknown L-level property");
    let reports = run_parallel(count, threads, |i| f(seed, i));
    summarize(prop, seed, count, reports)
}

pub fn summarize(prop: &str, seed: u64, count: usize, reports: Vec<DefReport>) -> Value {
    let mut shapes = Shapes::default();
    let mut violations = vec![];
    let mut inconclusive = vec![];
    let mut samples = vec![];
    let mut fam: std::collections::BTreeMap<String, (usize, usize)> = Default::default();
    let (mut accepted, mut rejected, mut nontrivial, mut tuples, mut transitions, mut extra) = (0, 0, 0, 0usize, 0usize, 0usize);
    for (i, r) in reports.iter().enumerate() {
        let e = fam.entry(r.family.clone()).or_default();
        e.0 += 1;
        if r.accepted {
            accepted += 1;
            e.1 += 1;
        }
        if r.rejected {
            rejected += 1;
        }
        if r.nontrivial {
            nontrivial += 1;
        }
        tuples += r.tuples;
        transitions += r.transitions;
        extra += r.extra_count;
        if let Some(s) = &r.shapes {
            shapes.add(s);
        }
        if let Some(reason) = &r.inconclusive {
            if inconclusive.len() < 50 {
                inconclusive.push(json!({"definition": r.name, "reason": reason}));
            }
        }
        for v in &r.violations {
            violations.push(v.clone());
        }
        if let Some(s) = &r.sample {
            if (i % (count / 6).max(1)) == 0 && samples.len() < 8 {
                samples.push(s.clone());
            }
        }
    }
    let n_inconclusive = reports.iter().filter(|r| r.inconclusive.is_some()).count();
    json!({
        "property": prop, "level": "L", "seed": seed, "definitions": count, "accepted": accepted, "rejected": rejected,
        "nontrivial": nontrivial, "product_tuples": tuples, "product_transitions": transitions, "other_checks": extra,
        "families": fam.iter().map(|(k, v)| (k.clone(), json!({"generated": v.0, "accepted": v.1}))).collect::<serde_json::Map<_, _>>(),
        "shape_histogram": shapes.to_json(), "inconclusive_count": n_inconclusive, "inconclusive": inconclusive,
        "samples": samples, "violations": violations,
    })
}

#[allow(dead_code)]
pub fn unused(_: &Reference, _: RefError) {}
