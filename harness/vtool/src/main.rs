mod analyze;
mod cli;
mod corpus;
mod lcheck;
mod meta;

use std::collections::HashMap;

use serde_json::{json, Value};

/// Root of the framework (`/verif` as registered; a snapshot run sets VERIF_ROOT to its own copy).
pub fn verif_root() -> String {
    std::env::var("VERIF_ROOT").unwrap_or_else(|_| "/verif".to_string())
}

/// The tree under test (`/repo` as registered).
pub fn repo_root() -> String {
    std::env::var("VERIF_REPO").unwrap_or_else(|_| "/repo".to_string())
}

fn args_map(args: &[String]) -> HashMap<String, String> {
    let mut m = HashMap::new();
    let mut i = 0;
    while i < args.len() {
        if let Some(k) = args[i].strip_prefix("--") {
            if i + 1 < args.len() && !args[i + 1].starts_with("--") {
                m.insert(k.to_string(), args[i + 1].clone());
                i += 2;
                continue;
            }
            m.insert(k.to_string(), "true".to_string());
        }
        i += 1;
    }
    m
}

fn write_out(m: &HashMap<String, String>, v: &Value) {
    let text = serde_json::to_string_pretty(v).unwrap();
    match m.get("out") {
        Some(p) => std::fs::write(p, text).expect("write out"),
        None => println!("{text}"),
    }
}

fn main() {
    let args: Vec<String> = std::env::args().collect();
    if args.len() < 2 {
        eprintln!("usage: vtool <lcheck|replay|show> ...");
        std::process::exit(2);
    }
    let m = args_map(&args[2..]);
    let seed: u64 = m.get("seed").map(|s| s.parse().unwrap()).unwrap_or(1);
    let threads: usize = m.get("threads").map(|s| s.parse().unwrap()).unwrap_or(16);
    analyze::install_quiet_panic_hook();
    match args[1].as_str() {
        "lcheck" => {
            let prop = m.get("prop").expect("--prop");
            let count: usize = m.get("count").map(|s| s.parse().unwrap()).unwrap_or(1000);
            let v = lcheck::run(prop, seed, count, threads);
            write_out(&m, &v);
        }
        "gen-corpus" => {
            let profile = m.get("profile").cloned().unwrap_or_else(|| "mixed".into());
            let count: usize = m.get("count").map(|s| s.parse().unwrap()).unwrap_or(100);
            let shards: usize = m.get("shards").map(|s| s.parse().unwrap()).unwrap_or(16);
            let max_states: usize = m.get("max-states").map(|s| s.parse().unwrap()).unwrap_or(250);
            let dir = m.get("dir").expect("--dir");
            let (defs, tried) = corpus::select(&profile, seed, count, max_states);
            corpus::write(std::path::Path::new(dir), &profile, seed, &defs, shards, tried);
            let mut shapes = vmon::graph::Shapes::default();
            for d in &defs {
                shapes.add(&d.graph.shapes());
            }
            let v = json!({"profile": profile, "seed": seed, "definitions": defs.len(), "tried": tried, "shards": shards, "shape_histogram": shapes.to_json()});
            write_out(&m, &v);
        }
        "det" => {
            let count: usize = m.get("count").map(|s| s.parse().unwrap()).unwrap_or(40);
            let proc: usize = m.get("proc").map(|s| s.parse().unwrap()).unwrap_or(0);
            let v = meta::det(seed, count, threads.min(8), proc);
            write_out(&m, &v);
        }
        "perm" => {
            let count: usize = m.get("count").map(|s| s.parse().unwrap()).unwrap_or(300);
            let v = meta::perm(seed, count, threads);
            write_out(&m, &v);
        }
        "fuzz" => {
            let count: usize = m.get("count").map(|s| s.parse().unwrap()).unwrap_or(3000);
            let v = meta::fuzz(seed, count, threads);
            write_out(&m, &v);
        }
        "cli-gen" => {
            let count: usize = m.get("count").map(|s| s.parse().unwrap()).unwrap_or(40);
            let v = cli::gen_files(seed, count, std::path::Path::new(m.get("dir").expect("--dir")));
            write_out(&m, &v);
        }
        "cli-oracle" => {
            let v = cli::oracle_batch(std::path::Path::new(m.get("dir").expect("--dir")));
            write_out(&m, &v);
        }
        "rsample-gen" => {
            let count: usize = m.get("count").map(|s| s.parse().unwrap()).unwrap_or(100);
            let v = meta::rsample_write(seed, count, std::path::Path::new(m.get("dir").expect("--dir")));
            write_out(&m, &v);
        }
        "replay" => {
            // re-run one recorded L-level violation verbosely
            let path = m.get("file").expect("--file");
            let v: Value = serde_json::from_str(&std::fs::read_to_string(path).unwrap()).unwrap();
            let def = vmon::spec::Def::from_json(&v["definition"]);
            println!("definition:\n{}", def.render());
            let a = analyze::run_generate(&def);
            println!("outcome: {:?}", a.outcome);
            if let Some(g) = &a.graph {
                println!("graph: {}", serde_json::to_string(&g.to_json()).unwrap());
                if let Ok(r) = analyze::build_reference(&def) {
                    let (f, st) = vmon::product::check(g, &r, &g.priorities(), lcheck::PRODUCT_CAP);
                    println!("product: tuples={} transitions={} ambiguous={:?}", st.tuples, st.transitions, st.ambiguous_groups);
                    for x in f {
                        println!("finding: {:?}", x);
                    }
                }
            }
            println!("recorded: rule={} detail={}", v["rule"], v["detail"]);
        }
        "show" => {
            // show what generate() does with a source file
            let path = m.get("file").expect("--file");
            let src = std::fs::read_to_string(path).unwrap();
            // optionally on a thread with a given stack size (KiB); the default thread stack of std is 2 MiB
            let a = match m.get("stack-kib").map(|s| s.parse::<usize>().unwrap()) {
                Some(kib) => std::thread::Builder::new().stack_size(kib * 1024).spawn(move || analyze::run_generate_source(&src)).unwrap().join().unwrap(),
                None => analyze::run_generate_source(&src),
            };
            let brief = m.contains_key("brief");
            println!("{}", json!({"outcome": format!("{:?}", a.outcome).chars().take(if brief { 300 } else { usize::MAX }).collect::<String>(), "graph": if brief { None } else { a.graph.map(|g| g.to_json()) }}));
        }
        other => {
            eprintln!("unknown subcommand {other}");
            std::process::exit(2);
        }
    }
}
