//! C16 (determinism), C18 (argument order), C19 (never panic / must reject) at the library level.

use std::collections::BTreeMap;

use serde_json::{json, Value};
use vmon::gen;
use vmon::rng::{fnv1a, Rng};
use vmon::spec::{Cb, CbRet, Def, ErrKind, Pat, PatKind};

use crate::analyze::{self, Outcome};
use crate::lcheck::{run_parallel, violation};

// ------------------------------------------------------------------------------------------------
// C16

fn det_def(seed: u64, i: usize) -> Def {
    let mut rng = Rng::derive(seed ^ 0xC16, i as u64);
    let name = format!("D{i}");
    match i % 10 {
        0 | 1 => gen::f2_keywords(&mut rng, &name),
        2 => gen::f3_unicode(&mut rng, &name),
        3 => gen::f8_reject(&mut rng, &name).0,
        4 if rng.chance(1, 2) => {
            // rejected definition with several different priority conflicts, some found in many automaton states
            let mut d = Def::new(&name, "multi-conflict", true);
            let p1 = rng.range(2, 9);
            let p2 = p1 + rng.range(1, 5);
            for t in ["[a-z]+", "[a-z]+x?", "[a-z_]+"].iter().take(rng.range(2, 3)) {
                d.push(Pat::regex(t, 0).prio(p1));
            }
            for t in ["[0-9]+", "\\d+", "[0-9]{1,3}"].iter().take(rng.range(2, 3)) {
                d.push(Pat::regex(t, 0).prio(p2));
            }
            d.push(Pat::token("1", 0));
            d.push(Pat::token("1", 0));
            if rng.chance(1, 2) {
                d.push(Pat::token("if", 0).prio(p1));
            }
            d.normalize();
            d
        }
        4 => gen::f6_loops(&mut rng, &name),
        5 => {
            // rejected definitions with several subpatterns and an undefined reference (diagnostic texts)
            let mut d = gen::f10_subpat(&mut rng, &name);
            d.subpats.push(("extra_a".into(), vmon::spec::Lit::s("[a-f]")));
            d.subpats.push(("extra_b".into(), vmon::spec::Lit::s("[0-9]")));
            d.push(vmon::spec::Pat::regex("(?&extra_c)|(?&nope)", 0));
            d.normalize();
            d
        }
        6 => gen::f10_subpat(&mut rng, &name),
        7 => gen::f9_callbacks(&mut rng, &name),
        8 => perm_base(seed, i),
        _ => gen::f1_soup(&mut rng, &name),
    }
}

/// Groups of definitions whose attribute literals are spelled identically (same order, same mode)
/// but mean something different: `ignore(case)` on one side only, a subpattern of the same name with
/// another body, `#[token]` versus `#[regex]`.  Output that depends on what the thread or process
/// generated before (caches keyed by spelling, one-shot flags) shows up on these.
fn lookalike_source(seed: u64, i: usize) -> String {
    let mut rng = Rng::derive(seed ^ 0xA11CE, (i / 4) as u64);
    let word = rng.pick_str(&["[a-z]+k", "select|from|ask", "[k-s]{2,4}", "ms+"]).to_string();
    let (body_a, body_b) = *rng.pick(&[("[0-9]+", "[a-f]+"), ("x|yy", "xx|y"), ("k+", "K+")]);
    let third = rng.pick_str(&["a+", "b.c", "[=]+"]).to_string();
    let utf8 = if rng.chance(1, 4) { "#[logos(utf8 = false)]\n" } else { "" };
    let v = i % 4;
    let icase = if v == 1 { ", ignore(case)" } else { "" };
    let body = if v == 2 { body_b } else { body_a };
    let third_attr = if v == 3 { "token" } else { "regex" };
    format!(
        "#[derive(Logos)]\n{utf8}#[logos(subpattern word = \"{body}\")]\nenum T {{\n    #[regex(\"{word}\"{icase})]\n    A,\n    #[regex(\"#(?&word)\")]\n    B,\n    #[{third_attr}(\"{third}\", priority = 30)]\n    C,\n}}\n"
    )
}

/// The definitions of the determinism workload, as sources: generated definitions, look-alike groups
/// and the fixed specimens of the must-reject categories (diagnostic texts are output too).
pub fn det_sources(seed: u64, count: usize) -> Vec<String> {
    let mut v = vec![];
    // every fixed specimen of the must-reject categories once (cheap: rejected early)
    for k in 0..category_specimen_count() {
        let (src, _) = category_specimen_nth(k);
        let src = match src.find(ENUM_MARKER) {
            Some(at) => src[at + ENUM_MARKER.len()..].to_string(),
            None => src,
        };
        v.push(src);
    }
    for i in 0..count {
        match i % 8 {
            6 | 7 => v.push(lookalike_source(seed, i / 8 * 2 + i % 2)),
            _ => v.push(det_def(seed, i).render()),
        }
    }
    v
}

/// One process: every definition generated in `threads` threads, each thread in its own order
/// (orders also depend on `proc`); prints per-definition hashes.
pub fn det(seed: u64, count: usize, threads: usize, proc: usize) -> Value {
    let defs = det_sources(seed, count);
    let per_thread: Vec<Vec<(u64, u64, usize, u8)>> = {
        let defs = &defs;
        let out = std::sync::Mutex::new(vec![]);
        std::thread::scope(|sc| {
            for t in 0..threads {
                let out = &out;
                sc.spawn(move || {
                    crate::analyze::install_quiet_panic_hook();
                    let n = defs.len();
                    let mut order: Vec<usize> = (0..n).collect();
                    match (proc + t) % 4 {
                        0 => {}
                        1 => order.reverse(),
                        2 => order.rotate_left(n / 2),
                        _ => {
                            let mut r = Rng::derive(seed ^ 0x0DDE5, (proc * 64 + t) as u64);
                            r.shuffle(&mut order);
                        }
                    }
                    let mut res = vec![(0u64, 0u64, 0usize, 0u8); n];
                    for i in order {
                        let a = analyze::run_generate_source(&defs[i]);
                        let oh = match &a.outcome {
                            Outcome::Accepted => fnv1a(a.output.as_bytes()),
                            Outcome::Rejected(_) => fnv1a(a.output.as_bytes()) ^ 1,
                            Outcome::Panicked(m) => fnv1a(m.as_bytes()) ^ 2,
                            Outcome::Unparsable(_) => 3,
                        };
                        let gh = a.graph.as_ref().map(|g| fnv1a(serde_json::to_string(&g.to_json()).unwrap().as_bytes())).unwrap_or(0);
                        let states = a.graph.as_ref().map(|g| g.states.len()).unwrap_or(0);
                        let kind = match &a.outcome { Outcome::Accepted => 0u8, Outcome::Rejected(_) => 1, Outcome::Panicked(_) => 2, Outcome::Unparsable(_) => 3 };
                        res[i] = (oh, gh, states, kind);
                    }
                    out.lock().unwrap().push((t, res));
                });
            }
        });
        let mut v = out.into_inner().unwrap();
        v.sort_by_key(|x| x.0);
        v.into_iter().map(|x| x.1).collect()
    };
    let mut violations = vec![];
    let mut hashes = vec![];
    let mut big = 0usize;
    let mut rejected = 0usize;
    let count = defs.len();
    for i in 0..count {
        let first = per_thread[0][i];
        if first.2 >= 8 {
            big += 1;
        }
        if first.3 == 1 {
            rejected += 1;
        }
        for (t, th) in per_thread.iter().enumerate() {
            if th[i].0 != first.0 || th[i].1 != first.1 {
                violations.push(json!({"property": "C16", "level": "L", "rule": "threads-disagree",
                    "detail": format!("definition {i}: thread 0 produced output/graph hashes {:x}/{:x}, thread {t} (another generation order) produced {:x}/{:x}", first.0, first.1, th[i].0, th[i].1),
                    "definition": defs[i]}));
                break;
            }
        }
        hashes.push(json!([format!("{:016x}", first.0), format!("{:016x}", first.1)]));
    }
    json!({"property": "C16", "definitions": count, "fixed_specimens": category_specimen_count(), "threads": threads, "definitions_with_8_or_more_states": big, "rejected_definitions": rejected, "hashes": hashes, "violations": violations,
           "sample": defs.get(0)})
}

// ------------------------------------------------------------------------------------------------
// C18

fn permutations(n: usize, limit: usize, rng: &mut Rng) -> Vec<Vec<usize>> {
    fn rec(cur: &mut Vec<usize>, used: &mut Vec<bool>, n: usize, out: &mut Vec<Vec<usize>>) {
        if cur.len() == n {
            out.push(cur.clone());
            return;
        }
        for i in 0..n {
            if !used[i] {
                used[i] = true;
                cur.push(i);
                rec(cur, used, n, out);
                cur.pop();
                used[i] = false;
            }
        }
    }
    if n <= 4 {
        let mut out = vec![];
        rec(&mut vec![], &mut vec![false; n], n, &mut out);
        return out;
    }
    let mut out = vec![(0..n).collect::<Vec<_>>()];
    for _ in 0..limit {
        let mut p: Vec<usize> = (0..n).collect();
        rng.shuffle(&mut p);
        out.push(p);
    }
    out
}

pub fn perm_base(seed: u64, i: usize) -> Def {
    perm_base_opts(seed, i, true)
}

/// `rich`: also use raw callback expressions and generic enums (token-level only, not meant to type-check)
pub fn perm_base_opts(seed: u64, i: usize, rich: bool) -> Def {
    let mut rng = Rng::derive(seed ^ 0xC18, i as u64);
    let name = format!("D{i}");
    let mut def = match i % 4 {
        0 => gen::f1_soup(&mut rng, &name),
        1 => gen::f6_loops(&mut rng, &name),
        2 => gen::f10_subpat(&mut rng, &name),
        _ => gen::f2_keywords(&mut rng, &name),
    };
    if def.pats.len() > 8 {
        def.pats.truncate(8);
        let nv = def.pats.iter().filter(|p| p.kind != PatKind::Skip).count();
        let mut k = 0;
        for p in def.pats.iter_mut() {
            if p.kind != PatKind::Skip {
                p.variant = k;
                k += 1;
            }
        }
        def.variants.truncate(nv);
    }
    // decorate patterns with as many named arguments as possible
    for p in def.pats.iter_mut() {
        if rng.chance(2, 3) && p.priority.is_none() {
            p.priority = Some(rng.range(1, 30));
        }
        if rng.chance(1, 2) {
            let ret = if p.kind == PatKind::Skip { CbRet::SkUnit } else { CbRet::Unit };
            p.cb = Some(Cb { ret, inline: false, bump: false, salt: 0, target: p.variant });
            p.cb_positional = rng.chance(1, 3);
            if rich && rng.chance(1, 2) {
                // inline closures whose bodies contain commas, comparison and shift operators, generics
                p.cb_text = Some(rng.pick_str(&[
                    "|lex| lex.slice().len() < 3", "|lex| lex.slice().len() <= 3 || lex.span().start > 2", "|lex| (1usize << lex.slice().len()) > 8",
                    "|lex| { let v = Vec::<u8>::with_capacity(4); v.len() < 1 }", "|lex| lex.slice().len() > 1", "|lex| core::cmp::max(1, 2) < lex.slice().len()",
                    "|lex| { let (a, b) = (1, 2); a < b }", "|lex| lex.extras < 5", "|lex| matches!(lex.slice().len(), 1 | 2)", "|lex| lex.slice().parse::<u32>().is_ok()",
                    "some::path::to_callback", "|lex| -> bool { lex.slice().len() < 2 }",
                ]).to_string());
            }
        }
        if rng.chance(1, 2) {
            p.ignore_case = true;
        }
        if p.kind != PatKind::Token && rng.chance(1, 2) {
            p.allow_greedy = Some(rng.chance(1, 2));
        }
    }
    if rng.chance(1, 2) {
        def.error = if rng.chance(1, 2) { ErrKind::Custom } else { ErrKind::CustomCb };
    }
    if rng.chance(1, 2) {
        def.utf8_explicit = true;
    }
    if rng.chance(1, 2) {
        def.extra_logos_items.push("crate = ::logos".into());
    }
    if rng.chance(1, 3) {
        def.extra_logos_items.push("export_dir = \"target/logos-graphs\"".into());
    }
    if rng.chance(1, 8) {
        // a single-valued item given twice with different values: whatever the verdict, it must not depend on the order
        let (a, b) = *rng.pick(&[("crate = ::logos", "crate = other_logos"), ("export_dir = \"target/a\"", "export_dir = \"target/b\""), ("extras = VExtras", "extras = u8"),
            ("error = VErr", "error = u8"), ("utf8 = true", "utf8 = false"), ("crate = a::b", "crate = ::logos")]);
        def.extra_logos_items.retain(|it| it.split(' ').next() != a.split(' ').next());
        def.extra_logos_items.push(a.into());
        def.extra_logos_items.push(b.into());
        def.family = "perm-duplicate-item".into();
    }
    if rich && rng.chance(1, 3) {
        // generic enum: concrete types and the source lifetime are given by #[logos] items
        match rng.below(5) {
            0 => {
                def.raw_generics = "<T>".into();
                def.extra_logos_items.push(format!("type T = {}", rng.pick_str(&["&'static str", "u32", "&str", "Vec<&'static [u8]>", "(u8, &'static str)"])));
                def.extra_logos_items.push("lifetime = none".into());
                def.raw_variants = "    #[token(\"\\u{7}\", gen_cb)]\n    Gen(T),\n".into();
            }
            1 => {
                def.raw_generics = "<'a, 'b, T>".into();
                def.extra_logos_items.push(format!("type T = {}", rng.pick_str(&["&'b str", "&'a str", "&'static str", "Wrapper<'a, 'b>"])));
                def.extra_logos_items.push(format!("lifetime = {}", rng.pick_str(&["'a", "'b", "none"])));
                def.raw_variants = "    #[token(\"\\u{7}\", gen_cb)]\n    Gen(T),\n    #[token(\"\\u{6}\", gen_cb2)]\n    Other(&'a str, ),\n".replace("(&'a str, )", "(&'b u8)");
            }
            2 => {
                def.raw_generics = "<T, U>".into();
                def.extra_logos_items.push("type T = &str".into());
                def.extra_logos_items.push("type U = Option<&'static str>".into());
                if rng.chance(1, 2) {
                    def.extra_logos_items.push("lifetime = none".into());
                }
                def.raw_variants = "    #[token(\"\\u{7}\", gen_cb)]\n    Gen(T),\n    #[token(\"\\u{6}\", gen_cb2)]\n    Other(U),\n".into();
            }
            3 => {
                // one concrete type mentions another type parameter
                def.raw_generics = "<N, V>".into();
                def.extra_logos_items.push("type N = u64".into());
                def.extra_logos_items.push(format!("type V = {}", rng.pick_str(&["Vec<N>", "Option<N>", "(N, N)", "&'static [N]"])));
                def.raw_variants = "    #[token(\"\\u{7}\", gen_cb)]\n    Gen(N),\n    #[token(\"\\u{6}\", gen_cb2)]\n    Other(V),\n".into();
            }
            _ => {
                def.raw_generics = "<'x>".into();
                def.extra_logos_items.push(format!("lifetime = {}", rng.pick_str(&["'x", "none"])));
                def.raw_variants = "    #[token(\"\\u{7}\", gen_cb)]\n    Gen(&'x str),\n".into();
                if rng.chance(1, 2) {
                    // the error / extras type mentions the enum's lifetime: what it is rewritten to depends on the
                    // `lifetime = ..` item, wherever that item stands
                    def.error = ErrKind::Unit;
                    let ty = rng.pick_str(&["LtErr<'x>", "Box<&'x str>", "(&'x str, u8)", "Option<&'x [u8]>", "LtErr<'x>"]);
                    match rng.below(4) {
                        0 => def.extra_logos_items.push(format!("error = {ty}")),
                        1 => def.extra_logos_items.push(format!("error({ty}, lt_err_cb)")),
                        2 => def.extra_logos_items.push(format!("error({ty}, callback = lt_err_cb)")),
                        _ => {
                            if !def.has_callbacks() {
                                def.extra_logos_items.push(format!("extras = {ty}"));
                            }
                        }
                    }
                }
            }
        }
    }
    if rich && rng.chance(1, 16) {
        // a long attribute (33..44 items): a chain of subpatterns, each defined through the one before, plus the
        // single-valued items somewhere in between
        let n = rng.range(31, 40);
        def.subpats.push(("c0".into(), vmon::spec::Lit::s("[k-m]")));
        for k in 1..n {
            def.subpats.push((format!("c{k}"), vmon::spec::Lit::s(&format!("(?&c{})", k - 1))));
        }
        def.push(Pat::regex(&format!("@(?&c{})+", n - 1), 0).prio(77));
        def.utf8_explicit = true;
        def.family = "perm-long".into();
        def.normalize();
    }
    if !def.pats.iter().any(|p| p.kind == PatKind::Skip) {
        def.push(Pat::skip("[ \\n]+").prio(3));
        def.normalize();
    }
    if rich && rng.chance(1, 4) {
        // several overlapping skips; their relative order must not matter for acceptance
        let mut prios = vec![5usize, 2, 5];
        if rng.chance(1, 2) {
            prios = vec![6, 2, 4];
        }
        rng.shuffle(&mut prios);
        for (t, pr) in ["[a-f]+", "[a-z]+", "[a-c]+"].iter().zip(prios) {
            def.push(Pat::skip(t).prio(pr));
        }
        def.family = "perm-skips".into();
        def.normalize();
    }
    if rng.chance(1, 4) {
        // the same skip literal written twice with other arguments, and a token between their priorities
        match rng.below(3) {
            0 => {
                def.push(Pat::skip("[%&]+").prio(9));
                def.push(Pat::skip("[%&]+").prio(1));
                def.push(Pat::regex("[%&$]+", 0).prio(5));
            }
            1 => {
                let mut a = Pat::skip("%").prio(3);
                a.ignore_case = true;
                def.push(a);
                def.push(Pat::skip("%").prio(4));
                def.push(Pat::regex("[%&$]+", 0).prio(1));
            }
            _ => {
                let mut a = Pat::skip("zq").prio(7);
                a.ignore_case = true;
                def.push(Pat::skip("zq").prio(2));
                def.push(a);
                def.push(Pat::regex("[%ZQzq]+", 0).prio(5));
            }
        }
        def.normalize();
    }
    if rng.chance(1, 2) {
        let mut s = Pat::skip("//[a-z]*");
        s.priority = Some(40);
        s.ignore_case = rng.chance(1, 2);
        def.push(s);
        def.normalize();
    }
    def
}

fn leaf_multiset(a: &analyze::Analysis) -> Option<Vec<(String, String, usize, bool)>> {
    a.graph.as_ref().map(|g| {
        let mut v: Vec<_> = g.leaves.iter().map(|l| (l.kind.clone(), l.pattern.clone(), l.priority, l.has_callback)).collect();
        v.sort();
        v
    })
}

fn outcome_key(a: &analyze::Analysis) -> (String, Vec<String>) {
    match &a.outcome {
        Outcome::Accepted => ("accepted".into(), vec![a.output.clone()]),
        Outcome::Rejected(m) => {
            let mut m = m.clone();
            m.sort();
            ("rejected".into(), m)
        }
        Outcome::Panicked(m) => ("panicked".into(), vec![m.clone()]),
        Outcome::Unparsable(m) => ("unparsable".into(), vec![m.clone()]),
    }
}

/// One base definition: all argument orders of every pattern (<= 24 each), sampled orders of the
/// combined #[logos(...)] attribute that keep subpatterns before their use and skips in order.
pub fn perm_one(seed: u64, i: usize) -> (usize, usize, Vec<Value>, Option<Value>, bool, usize) {
    let base = perm_base(seed, i);
    let mut rng = Rng::derive(seed ^ 0x18C, i as u64);
    let a0 = analyze::run_generate(&base);
    let k0 = outcome_key(&a0);
    let g0 = a0.graph.as_ref().map(|g| serde_json::to_string(&g.to_json()).unwrap());
    let mut evals = 1usize;
    let mut variants_tried = 0usize;
    let mut skip_products = 0usize;
    let mut violations = vec![];
    let mut check = |d: &Def, what: String, violations: &mut Vec<Value>| {
        let a = analyze::run_generate(d);
        let k = outcome_key(&a);
        if k.0 != k0.0 {
            violations.push(violation("C18", "order-changes-acceptance", &format!("{what}: canonical order is {}, this order is {} ({:?})", k0.0, k.0, k.1.iter().map(|s| s.chars().take(100).collect::<String>()).collect::<Vec<_>>()), d, None, None));
        } else if k.0 == "rejected" {
            // rejected in both orders: the property demands nothing further. Which diagnostics accompany the rejection may
            // depend on the order (an item that fails to parse ends the processing of its attribute; of a single-valued item
            // given twice the later value is in force while the remaining diagnostics are collected).
        } else if k.1 != k0.1 {
            let g = a.graph.as_ref().map(|g| serde_json::to_string(&g.to_json()).unwrap());
            let detail = if g != g0 { "captured graph / leaves differ" } else { "generated code or diagnostics differ (graph equal)" };
            violations.push(violation("C18", "order-changes-lexer", &format!("{what}: {detail}"), d, None, None));
        }
    };
    // pattern argument orders
    for leaf in 0..base.pats.len() {
        let p = &base.pats[leaf];
        let n_named = (p.cb.is_some() && !p.cb_positional) as usize + p.priority.is_some() as usize + p.ignore_case as usize + p.allow_greedy.is_some() as usize;
        if n_named < 2 {
            continue;
        }
        for perm in permutations(n_named, 0, &mut rng).into_iter().skip(1) {
            let mut d = base.clone();
            d.pats[leaf].arg_order = perm.clone();
            evals += 1;
            variants_tried += 1;
            check(&d, format!("leaf {leaf} named arguments in order {perm:?}"), &mut violations);
            // the same order written without blanks: `"a",callback=|lex| 1,priority=3`
            let mut t = d.clone();
            t.pats[leaf].tight = true;
            evals += 1;
            variants_tried += 1;
            check(&t, format!("leaf {leaf} named arguments in order {perm:?}, written without blanks around `=` and `,`"), &mut violations);
        }
    }
    // #[logos(...)] item orders
    let items = base.logos_items();
    let n = items.len();
    if n >= 2 {
        let is_sub = |s: &String| s.starts_with("subpattern ");
        let is_skip = |s: &String| s.starts_with("skip");
        let mut tried = 0;
        let mut skip_orders_tried = 0;
        let mut canon_product_ok: Option<bool> = None;
        let mut perms = permutations(n, 40, &mut rng);
        {
            // orders built to respect the dependencies (a uniformly random order of many items never does): subpatterns
            // and skips keep their places relative to each other, every other item is dropped at a random position
            let subs: Vec<usize> = (0..n).filter(|&k| is_sub(&items[k])).collect();
            let skips: Vec<usize> = (0..n).filter(|&k| is_skip(&items[k])).collect();
            let free: Vec<usize> = (0..n).filter(|&k| !is_sub(&items[k]) && !is_skip(&items[k])).collect();
            if subs.len() + skips.len() >= 4 && !free.is_empty() {
                for _ in 0..12 {
                    let mut p: Vec<usize> = subs.iter().chain(skips.iter()).cloned().collect();
                    let mut fr = free.clone();
                    rng.shuffle(&mut fr);
                    for f in fr {
                        let at = rng.below(p.len() + 1);
                        p.insert(at, f);
                    }
                    perms.insert(1, p);
                }
            }
        }
        for perm in perms.into_iter().skip(1) {
            // dependency respecting: subpatterns keep their relative order and precede all skips; skips keep their order
            let pos = |idx: usize| perm.iter().position(|&x| x == idx).unwrap();
            let subs: Vec<usize> = (0..n).filter(|&k| is_sub(&items[k])).collect();
            let skips: Vec<usize> = (0..n).filter(|&k| is_skip(&items[k])).collect();
            let deps_ok = subs.windows(2).all(|w| pos(w[0]) < pos(w[1])) && subs.iter().all(|&s| skips.iter().all(|&k| pos(s) < pos(k)));
            if !deps_ok {
                continue;
            }
            let skips_in_order = skips.windows(2).all(|w| pos(w[0]) < pos(w[1]));
            if !skips_in_order {
                // reordered skips renumber the leaves, so the generated text legitimately differs; the lexer must
                // still be accepted or rejected alike (with the same number of diagnostics)
                if skip_orders_tried >= 6 {
                    continue;
                }
                skip_orders_tried += 1;
                let mut d = base.clone();
                d.logos_order = perm.clone();
                evals += 1;
                variants_tried += 1;
                let a = analyze::run_generate(&d);
                let k = outcome_key(&a);
                if k.0 != k0.0 {
                    violations.push(violation("C18", "skip-order-changes-acceptance", &format!("#[logos(...)] items in order {perm:?} (skips reordered): canonical order is {} with {} diagnostics, this order is {} with {}", k0.0, k0.1.len(), k.0, k.1.len()), &d, None, None));
                } else if k.0 == "accepted" && leaf_multiset(&a) != leaf_multiset(&a0) {
                    // every item contributes exactly one leaf whatever the order: same patterns, priorities, kinds
                    violations.push(violation("C18", "skip-order-changes-leaves", &format!("#[logos(...)] items in order {perm:?} (skips reordered): the set of leaves (kind, pattern, priority, callback) differs from the canonical order's: {:?} versus {:?}", leaf_multiset(&a), leaf_multiset(&a0)), &d, None, None));
                } else if k.0 == "accepted" {
                    // equivalence: the same definition written with its skips in this order (leaves renumbered
                    // accordingly) must still implement its own reference; only judged when the canonical order does
                    let canon_ok = *canon_product_ok.get_or_insert_with(|| {
                        let mut r = crate::lcheck::DefReport::default();
                        crate::lcheck::product_report(&base, &a0, None, Some("C18"), &mut r);
                        r.violations.is_empty() && r.inconclusive.is_none()
                    });
                    if canon_ok {
                        let skip_idx: Vec<usize> = (0..base.pats.len()).filter(|&k| base.pats[k].kind == PatKind::Skip).collect();
                        let mut order: Vec<usize> = skips.clone();
                        order.sort_by_key(|&k| pos(k));
                        // items[skips[j]] is the j-th skip leaf of the base definition
                        let mut d2 = base.clone();
                        for (slot, item) in order.iter().enumerate() {
                            let j = skips.iter().position(|x| x == item).unwrap();
                            d2.pats[skip_idx[slot]] = base.pats[skip_idx[j]].clone();
                        }
                        let a2 = analyze::run_generate(&d2);
                        evals += 1;
                        if matches!(a2.outcome, Outcome::Accepted) {
                            let mut r = crate::lcheck::DefReport::default();
                            crate::lcheck::product_report(&d2, &a2, None, Some("C18"), &mut r);
                            skip_products += 1;
                            if let Some(v) = r.violations.into_iter().next() {
                                violations.push(violation("C18", "skip-order-changes-lexer", &format!("skips written in the order {order:?} (item indices): the lexer no longer implements the definition although the canonical order does: {} {}", v["rule"].as_str().unwrap_or(""), v["detail"].as_str().unwrap_or("")), &d2, None, None));
                            }
                        } else {
                            violations.push(violation("C18", "skip-order-changes-acceptance", &format!("skips written in the order {order:?}: {:?}", outcome_key(&a2).0), &d2, None, None));
                        }
                    }
                }
                continue;
            }
            tried += 1;
            if tried > 24 {
                break;
            }
            let mut d = base.clone();
            d.logos_order = perm.clone();
            evals += 1;
            variants_tried += 1;
            check(&d, format!("#[logos(...)] items in order {perm:?}"), &mut violations);
        }
    }
    let sample = if i % 50 == 0 { Some(json!({"canonical": base.render(), "outcome": k0.0, "orders_tried": variants_tried})) } else { None };
    (evals, variants_tried, violations, sample, variants_tried > 0 && k0.0 == "accepted", skip_products)
}

pub fn perm(seed: u64, count: usize, threads: usize) -> Value {
    let res = run_parallel(count, threads, |i| perm_one(seed, i));
    let mut evals = 0;
    let mut orders = 0;
    let mut nontrivial = 0;
    let mut violations = vec![];
    let mut samples = vec![];
    let mut skip_products = 0;
    for (e, o, v, s, nt, sp) in res {
        skip_products += sp;
        evals += e;
        orders += o;
        if nt {
            nontrivial += 1;
        }
        violations.extend(v);
        if let Some(s) = s {
            samples.push(s);
        }
    }
    json!({"property": "C18", "definitions": count, "evaluations": evals, "orders_compared": orders, "skip_orders_checked_against_reference": skip_products, "nontrivial": nontrivial, "violations": violations, "samples": samples})
}

// ------------------------------------------------------------------------------------------------
// C19

const VARIANT_SHAPES: &[(&str, bool)] = &[
    ("A", false), ("Ärger", false), ("Ж(u32)", false), ("A(u32)", false), ("A()", true), ("A(u32, u32)", true), ("A {}", true), ("A { x: u32 }", true), ("A(&'s str)", false),
];

const MALFORMED_ARGS: &[&str] = &[
    "\"a\", приоритет = 1", "\"a\", ignore(регистр)", "\"a\", é", "\"a\", callback = ", "\"a\", priority = 3, callback = , ignore(case)", "\"a\", ignore(case,)", "\"a\", ignore(,case)",
    "\"a\", callback = f, callback = g", "\"a\", priority = 1, priority = 2", "\"a\", f, g", "\"a\", priority = x", "\"a\", priority", "\"a\", ignore(caseless)",
    "\"a\", ignore()", "\"a\", ignore(case, case)", "\"a\", allow_greedy = maybe", "\"a\", allow_greedy = true, allow_greedy = false", "\"a\", callback", "\"a\", unknown = 3",
    "", "1", "\"a\" \"b\"", "\"a\",, f", "b'a'", "\"a\", |x y| 1", "\"a\", |lex|", "\"a\", ignore(ascii_case)", "\"a\", callback = |a, b| 1", "'a'", "\"a\", priority = -1",
    "\"a\", =", "\"a\", #", "\"a\", ?", "\"a\", ;", "\"a\", ::", "\"a\", ->", "\"a\", =>", "\"a\", @", "\"a\", ~", "\"a\", 'a", "\"a\",, f, priority = 2", "\"a\", priority = 2,, f", "\"a\", $",
    // a keyword as the parameter of an inline callback
    "\"a\", |fn| ()", "\"a\", |match| 1", "\"a\", callback = |struct| ()", "\"a\", |let| true", "\"a\", priority = 2, callback = |mut| ()", "\"a\", |'a| ()", "\"a\", |1| ()",
    // inline callbacks whose body is not an expression / a block
    "\"a\", |lex| = 3", "\"a\", |lex| let x", "\"a\", |lex| #", "\"a\", |lex| ,", "\"a\", |lex| { let }", "\"a\", |lex| { = }", "\"a\", callback = |lex| =>", "\"a\", |lex| ..=", "\"a\", |lex| 1 2",
    "\"a\", |lex| { 1 } }", "\"a\", |lex| else", "\"a\", priority = 2, callback = |lex| +",
    "\"a\", priority = 1.5", "\"a\", (f)", "\"a\", callback = f callback = g", "\"a\", ignore(case) priority = 3", "\"a\", f, callback = g", "\"a\", callback = f, priority = 2, callback = g",
];

const MALFORMED_ITEMS: &[&str] = &[
    "crate = lg<u8>", "crate = a::b::<c>", "crate = ::logos::<'a>", "crate = <T as U>::logos", "skip(\"a\", |fn| ())", "error(E, |type| E)", "error(E, callback = |in| E)",
    "skip(\"a\", |lex| = 3)", "error(E, |lex| =)", "skip(\"a\", callback = |lex| { let })", "error(E, callback = |lex| #)",
    "skip(\"a\",, foo)", "error(E,, foo)", "skip(\"a\", =)", "error(E, #)", "skip(\"a\", ?)", "error(E, ->)", "skip(\"a\", callback = ,, f)",
    "extras = HashMap<String, u32>", "error = Result<u8, u8>", "extras = ", "error = ", "extras = 1 + 2", "error = 1 + 2", "crate = \"x\"", "crate = a::<b, c>", "crate = ",
    "écart = 1", "тип", "日本語(x)", "é", "ünicode = \"a\"", "skip(\"a\", прио = 1)", "error(E, обратный = f)", "subpattern ß = \"a\"", "type Ж = u8",
    "error = E, error = F", "error(E, callback = f, callback = g)", "error(E, f, g)", "error(E, callback)", "error()", "error", "extras = X, extras = Y", "utf8 = false, utf8 = true",
    "utf8 = maybe", "utf8", "skip", "skip 1", "skip(\"a\", callback = f, callback = g)", "skip()", "subpattern", "subpattern x", "subpattern x = 1", "subpattern 1 = \"a\"",
    "crate", "crate = ", "source = str", "export_dir = 1", "type T", "type T = ", "unknown", "unknown = 1", "lifetime = 'a, lifetime = 'b", "\"literal\"", "skip(\"a\") priority = 3",
    "subpattern a = \"x\", subpattern a = \"y\"", "subpattern a-b = \"x\"", "error(E, callback = |a, b| 1)", "error(E, f, callback = g)", "skip(\"a\", f, callback = g)",
];

/// Complete malformed sources that do not fit the templates (bare attributes, const generics, legacy
/// attributes, malformed nested groups, bad subpattern names, patterns that do not compile).
const RAW_MALFORMED: &[&str] = &[
    // enum items that rustc's parser recovers from (or accepts) and hands to the derive although syn cannot parse them
    "#[derive(Logos)]\nenum T { #[token(\"a\")] A  #[token(\"b\")] B }\n",
    "#[derive(Logos)]\nenum T { #[token(\"a\")] A(dyn) }\n",
    "#[derive(Logos)]\nenum T { #[token(\"a\")] A(impl) }\n",
    "#[derive(Logos)]\nenum T { #[token(\"a\")] A(u8 = 3) }\n",
    "#[derive(Logos)]\nenum T { #[token(\"a\")] A, #[token(\"b\")] B(Box<dyn 'static>) }\n",
    "#[derive(Logos)]\nenum T { #[token(\"a\")] A;  #[token(\"b\")] B }\n",
    "#[derive(Logos)]\nenum T { #[token(\"a\")] A = , #[token(\"b\")] B }\n",
    "#[derive(Logos)]\nenum { #[token(\"a\")] A }\n",
    "#[derive(Logos)]\nenum T<> where { #[token(\"a\")] A(,) }\n",
    "#[derive(Logos)]\n#[logos]\nenum T { #[token(\"a\")] A }\n",
    "#[derive(Logos)]\n#[logos = \"x\"]\nenum T { #[token(\"a\")] A }\n",
    "#[derive(Logos)]\nenum T { #[token] A }\n",
    "#[derive(Logos)]\nenum T { #[regex = \"a\"] A }\n",
    "#[derive(Logos)]\nenum T<const N: usize> { #[token(\"a\")] A }\n",
    "#[derive(Logos)]\nenum T { #[error] E, #[token(\"a\")] A }\n",
    "#[derive(Logos)]\nenum T { #[end] E, #[token(\"a\")] A }\n",
    "#[derive(Logos)]\n#[logos(error(E, callback))]\nenum T { #[token(\"a\")] A }\n",
    "#[derive(Logos)]\n#[logos(error(E, unknown = 1))]\nenum T { #[token(\"a\")] A }\n",
    "#[derive(Logos)]\n#[logos(error(E f))]\nenum T { #[token(\"a\")] A }\n",
    "#[derive(Logos)]\n#[logos(error(E, f, =))]\nenum T { #[token(\"a\")] A }\n",
    "#[derive(Logos)]\n#[logos(export_dir = 1)]\nenum T { #[token(\"a\")] A }\n",
    "#[derive(Logos)]\n#[logos(export_dir(\"x\"))]\nenum T { #[token(\"a\")] A }\n",
    "#[derive(Logos)]\n#[logos(type = X)]\nenum T<X> { #[token(\"a\")] A }\n",
    "#[derive(Logos)]\n#[logos(type(X))]\nenum T<X> { #[token(\"a\")] A }\n",
    "#[derive(Logos)]\n#[logos(lifetime)]\nenum T<'a> { #[regex(\"a\")] A(&'a str) }\n",
    "#[derive(Logos)]\n#[logos(lifetime('a))]\nenum T<'a> { #[regex(\"a\")] A(&'a str) }\n",
    "#[derive(Logos)]\n#[logos(lifetime = 'zz)]\nenum T<'a> { #[regex(\"a\")] A(&'a str) }\n",
    "#[derive(Logos)]\nenum T<'a, 'b> { #[regex(\"a\")] A(&'a str), #[regex(\"b\")] B(&'b str) }\n",
    "#[derive(Logos)]\nenum T<X> { #[token(\"a\")] A, #[regex(\"b\", f)] B(X) }\n",
    "#[derive(Logos)]\n#[logos(type X = u8, type X = u16)]\nenum T<X> { #[regex(\"b\", f)] B(X) }\n",
    "#[derive(Logos)]\n#[logos(type Y = u8)]\nenum T<X> { #[regex(\"b\", f)] B(X) }\n",
    "#[derive(Logos)]\nenum T { #[token(\"a\", ignore(case,))] A }\n",
    "#[derive(Logos)]\nenum T { #[token(\"a\", ignore(case x))] A }\n",
    "#[derive(Logos)]\nenum T { #[token(\"a\", ignore(case, 1))] A }\n",
    "#[derive(Logos)]\nenum T { #[token(\"a\", ignore = case)] A }\n",
    "#[derive(Logos)]\n#[logos(subpattern é = \"a\")]\nenum T { #[regex(\"(?&é)\")] A }\n",
    "#[derive(Logos)]\n#[logos(subpattern x = \"(\")]\nenum T { #[regex(\"(?&x)\")] A }\n",
    "#[derive(Logos)]\n#[logos(subpattern x = \"[a-\")]\nenum T { #[token(\"q\")] A }\n",
    "#[derive(Logos)]\n#[logos(skip \"(\")]\nenum T { #[token(\"q\")] A }\n",
    "#[derive(Logos)]\n#[logos(skip(\"[z-a]\", priority = 3))]\nenum T { #[token(\"q\")] A }\n",
    "#[derive(Logos)]\n#[logos(skip(\"a\", f, g))]\nenum T { #[token(\"q\")] A }\n",
    "#[derive(Logos)]\n#[logos(skip(b\"\\xFF\", ignore(case)))]\nenum T { #[token(\"q\")] A }\n",
    "#[derive(Logos)]\nenum T { #[token(b\"\\xFF\", ignore(case))] A }\n",
    "#[derive(Logos)]\n#[logos(utf8 = false)]\nenum T { #[token(b\"\\xFFk\", ignore(case))] A, #[regex(b\"\\xFE+\", ignore(case))] B }\n",
    "#[derive(Logos)]\nenum T { }\n",
    "#[derive(Logos)]\nenum T { A, B }\n",
    "#[derive(Logos)]\n#[logos(skip \" \")]\nenum T { }\n",
];

/// Well-typed generic definitions (with their own callbacks) that must be accepted AND compile:
/// exotic field types exercise the type traversal of the derive (arrays, tuples, fn pointers, raw
/// pointers, trait objects with lifetime bounds, nested generics, explicit / fresh source lifetimes).
const RAW_CLEAN: &[&str] = &[
    r#"fn c_arr<'a>(_: &mut Lexer<'a, G<'a, u8>>) -> [u8; 2] { [1, 2] }
fn c_opt<'a>(lex: &mut Lexer<'a, G<'a, u8>>) -> Option<(u8, &'a str)> { Some((1, lex.slice())) }
fn c_fn<'a>(_: &mut Lexer<'a, G<'a, u8>>) -> fn(&'a str) -> u8 { |s| s.len() as u8 }
fn c_ptr<'a>(_: &mut Lexer<'a, G<'a, u8>>) -> *const u8 { std::ptr::null() }
fn c_box<'a>(_: &mut Lexer<'a, G<'a, u8>>) -> Box<dyn Fn(&'a str) -> u8 + 'a> { Box::new(|s| s.len() as u8) }
fn c_vec<'a>(lex: &mut Lexer<'a, G<'a, u8>>) -> Vec<&'a str> { vec![lex.slice()] }
fn c_par<'a>(_: &mut Lexer<'a, G<'a, u8>>) -> (u8) { 3 }
#[derive(Logos)]
#[logos(type T = u8)]
pub enum G<'a, T> {
    #[regex("a+")]
    A(&'a str),
    #[regex("b", c_arr)]
    B([T; 2]),
    #[regex("c", c_opt)]
    C(Option<(T, &'a str)>),
    #[regex("d", c_fn)]
    D(fn(&'a str) -> T),
    #[regex("e", c_ptr)]
    E(*const T),
    #[regex("f", c_box)]
    F(Box<dyn Fn(&'a str) -> T + 'a>),
    #[regex("g", c_vec)]
    H(Vec<&'a str>),
    #[regex("h", c_par)]
    I((T)),
}
"#,
    r#"pub struct Wrap<'x, 'y, V>(pub &'x str, pub &'y [V]);
fn c_w<'s, 'y>(lex: &mut Lexer<'s, K<'s, 'y, u16>>) -> Wrap<'s, 'y, u16> { Wrap(lex.slice(), &[]) }
#[derive(Logos)]
#[logos(type V = u16, lifetime = 'x)]
pub enum K<'x, 'y, V> {
    #[regex("[a-z]+", c_w)]
    W(Wrap<'x, 'y, V>),
    #[token("!")]
    Bang,
}
"#,
    r#"fn c_it<'s>(_: &mut Lexer<'s, M<u32>>) -> Option<std::iter::Empty<u32>> { None }
#[derive(Logos)]
#[logos(type N = u32, lifetime = none)]
pub enum M<N> {
    #[regex("[0-9]+", |lex| lex.slice().len() as u32)]
    Num(N),
    #[regex("x", c_it)]
    It(std::iter::Empty<N>),
    #[token("static")]
    S,
}
"#,
    // 'static is never the source lifetime
    r#"#[derive(Logos)]
pub enum S1 {
    #[token("a", |_| "x")]
    A(&'static str),
    #[token("b", |_| std::borrow::Cow::Borrowed("y"))]
    B(std::borrow::Cow<'static, str>),
    #[token("c")]
    C,
}
"#,
    r#"#[derive(Logos)]
pub enum S2<'a> {
    #[regex("a+")]
    A(&'a str),
    #[token("s", |_| "lit")]
    S(&'static str),
    #[token("d", |_| Box::new(|| 1u8) as Box<dyn Fn() -> u8 + 'static>)]
    D(Box<dyn Fn() -> u8 + 'static>),
    #[token("v", |lex| vec![(lex.slice(), "st")])]
    V(Vec<(&'a str, &'static str)>),
}
"#,
    // lifetimes in the extras and error types
    r#"#[derive(Logos)]
#[logos(extras = &'a str)]
pub enum X1<'a> {
    #[token("a")]
    A(&'a str),
    #[token("b")]
    B,
}
"#,
    r#"#[derive(Debug, Clone, PartialEq, Default)]
pub struct Er<'x>(pub Option<&'x str>);
#[derive(Logos)]
#[logos(error = Er<'a>, extras = (u8, Option<&'a [u8]>))]
pub enum X2<'a> {
    #[token("a")]
    A(&'a str),
    #[token("b")]
    B,
}
"#,
    // a concrete type that mentions another type parameter
    r#"#[derive(Logos)]
#[logos(type N = u64, type V = Vec<N>)]
pub enum X3<N, V> {
    #[token("a", |_| 1)]
    A(N),
    #[token("b", |_| vec![1])]
    B(V),
}
"#,
    r#"#[derive(Logos)]
#[logos(type V = Vec<(N, &'a str)>, type N = &'a str)]
pub enum X5<'a, N, V> {
    #[token("c")]
    C(&'a str),
    #[regex("a+", |lex| lex.slice())]
    A(N),
    #[token("b", |lex| vec![(lex.slice(), lex.slice())])]
    B(V),
}
"#,
    // elided (higher-ranked) lifetimes in the extras type stay elided
    r#"fn c_ex<'a>(lex: &mut Lexer<'a, X7<'a>>) -> usize { let up = String::from("xyz"); (lex.extras.1.unwrap())(&up) }
#[derive(Logos)]
#[logos(extras = (&'a str, Option<fn(&str) -> usize>))]
pub enum X7<'a> {
    #[token("a", c_ex)]
    A(usize),
    #[token("b")]
    B(&'a str),
}
"#,
    // lifetimes in a qualified-self type and in the trait of a trait object
    r#"pub trait Tr8 { type Out; }
pub struct W8<'x>(pub &'x str);
impl<'x> Tr8 for W8<'x> { type Out = &'x str; }
pub trait Dy8<'x> { fn get(&self) -> &'x str; }
pub struct H8<'x>(&'x str);
impl<'x> Dy8<'x> for H8<'x> { fn get(&self) -> &'x str { self.0 } }
fn c_dy<'s>(lex: &mut Lexer<'s, X8<'s>>) -> Box<dyn Dy8<'s> + 's> { Box::new(H8(lex.slice())) }
#[derive(Logos)]
pub enum X8<'a> {
    #[regex("[a-z]+", |lex| lex.slice())]
    Word(<W8<'a> as Tr8>::Out),
    #[regex("[0-9]+", c_dy)]
    Dyn(Box<dyn Dy8<'a> + 'a>),
    #[token("!")]
    Bang(&'a str),
}
"#,
    // `?` / `return` inside a closure-syntax callback
    r#"#[derive(Logos)]
pub enum X9 {
    #[regex("[0-9]+", |lex| { let n: u32 = lex.slice().parse().ok()?; Some(n * 2) })]
    Num(u32),
    #[token("b")]
    B,
}
"#,
    // a user callback that shares its name with a generated item of the tail-call lexer
    r#"fn state1<'s>(lex: &mut Lexer<'s, X6>) -> usize { lex.slice().len() }
#[derive(Logos)]
pub enum X6 {
    #[regex("a+", state1)]
    A(usize),
    #[token("b")]
    B,
}
"#,
    // a user callback that shares its name with a parameter of the generated `_get_action(lex, offset, context)`
    r#"fn lex<'s>(l: &mut Lexer<'s, X10>) -> usize { l.slice().len() }
#[derive(Logos)]
pub enum X10 {
    #[regex("[a-z]+", lex)]
    Word(usize),
    #[token("!")]
    Bang,
}
"#,
    // a user extension trait on Lexer whose method shares its name with one of logos' internal LexerInternal methods
    r#"pub trait LexerExt11 { fn offset(&self) -> usize; }
impl<'s, T: Logos<'s>> LexerExt11 for Lexer<'s, T> { fn offset(&self) -> usize { self.span().start } }
#[derive(Logos)]
#[logos(skip " ")]
pub enum X11 {
    #[regex("[a-z]+")]
    Word,
}
"#,
    // function pointer with elided (higher-ranked) lifetimes
    r#"fn c_len(s: &str) -> usize { s.len() }
#[derive(Logos)]
pub enum X4 {
    #[token("a", |_| c_len as fn(&str) -> usize)]
    A(fn(&str) -> usize),
    #[token("b")]
    B,
}
"#,
];

/// Definitions stamped out by `macro_rules!` helpers: `$t:ty` fragments reach the derive wrapped in
/// `Delimiter::None` groups (syn: `Type::Group`), which only happens with rustc as the macro host.
/// Must compile; never run through the library entry point.
const RAW_RUSTC_ONLY: &[&str] = &[
    r#"macro_rules! word_lexer {
    ($name:ident, $lt:lifetime, $word:ty, $num:ty) => {
        #[derive(Logos, Debug, PartialEq)]
        #[logos(skip " +")]
        pub enum $name<$lt> {
            #[regex("[a-z]+", |lex| lex.slice())]
            Word($word),
            #[regex("[0-9]+", |lex| lex.slice().parse::<$num>().ok().map(|n| (n, lex.slice())))]
            Number(($num, $word)),
        }
    };
}
word_lexer!(MTok1, 'a, &'a str, u32);
"#,
    r#"macro_rules! number_lexer {
    ($name:ident < $param:ident = $concrete:ty >, $payload:ty) => {
        #[derive(Logos, Debug, PartialEq)]
        #[logos(skip " +", type $param = $concrete)]
        pub enum $name<$param> {
            #[regex("[0-9]+", |lex| lex.slice().parse::<$concrete>().ok())]
            Number($payload),
            #[token("+")]
            Plus,
        }
    };
}
number_lexer!(MTok2<N = u64>, N);
number_lexer!(MTok3<N = u16>, Option<N>);
"#,
    r#"macro_rules! with_literals {
    ($name:ident, $kw:literal, $re:literal, $prio:literal) => {
        #[derive(Logos, Debug, PartialEq)]
        pub enum $name {
            #[token($kw, priority = $prio)]
            Kw,
            #[regex($re)]
            Re,
        }
    };
}
with_literals!(MTok4, "let", "[a-z]+", 30);
"#,
];

pub fn rustc_only_specimens() -> &'static [&'static str] {
    RAW_RUSTC_ONLY
}

/// Malformed `#[logos(...)]` items that must be REJECTED: accepting them means silently dropping
/// what the user wrote (a priority, a second pattern) or reading one item as another.
const MUST_REJECT_ITEMS: &[&str] = &[
    "skip \"[a-z]+\" priority = 100", "skip \" \" \"\\t\"", "skip \"a\" | \"b\"", "skip \"x\" ignore(case)", "skip \"x\" cb", "subpattern x, \"b+\"", "type T, u32", "subpattern x",
    "skip \"ab\" priority = 1, utf8 = true",
];

pub const ENUM_MARKER: &str = "//---ENUM---";

/// Number of specimens in the exhaustive enumeration of `category_specimen_nth`.
pub fn category_specimen_count() -> usize {
    VARIANT_SHAPES.len() + 2 * MALFORMED_ARGS.len() + MALFORMED_ITEMS.len() + RAW_MALFORMED.len() + RAW_CLEAN.len() + MUST_REJECT_ITEMS.len()
}

/// The n-th specimen of the fixed list (every variant shape, every malformed argument list in
/// both #[token] and #[regex], every malformed #[logos] item).
pub fn category_specimen_nth(n: usize) -> (String, &'static str) {
    let n = n % category_specimen_count();
    let base = category_specimen_count() - MUST_REJECT_ITEMS.len();
    if n >= base {
        let item = MUST_REJECT_ITEMS[n - base];
        return (format!("#[derive(Logos)]\n#[logos({item})]\nenum T {{\n    #[token(\"a\")]\n    A,\n    #[regex(\"[a-z]+\", priority = 5)]\n    W,\n}}\n"), "malformed-must-reject");
    }
    if n < VARIANT_SHAPES.len() {
        let (shape, must_reject) = VARIANT_SHAPES[n];
        let lt = if shape.contains("'s") { "<'s>" } else { "" };
        let cb = if shape.contains("u32)") && !shape.contains(',') { ", |_| 1u32" } else { "" };
        return (format!("#[derive(Logos)]\nenum T{lt} {{\n    #[token(\"a\"{cb})]\n    {shape},\n    #[token(\"b\")]\n    B,\n}}\n"), if must_reject { "bad-variant-shape" } else { "ok" });
    }
    let n = n - VARIANT_SHAPES.len();
    if n < 2 * MALFORMED_ARGS.len() {
        let args = MALFORMED_ARGS[n / 2];
        let attr = if n % 2 == 0 { "token" } else { "regex" };
        return (format!("#[derive(Logos)]\nenum T {{\n    #[{attr}({args})]\n    A,\n    #[token(\"b\")]\n    B,\n}}\n"), "malformed");
    }
    let n = n - 2 * MALFORMED_ARGS.len();
    if n >= MALFORMED_ITEMS.len() + RAW_MALFORMED.len() {
        // helper items first, then the marker, then the enum alone (the derive only ever sees the enum)
        let src = RAW_CLEAN[n - MALFORMED_ITEMS.len() - RAW_MALFORMED.len()];
        let at = src.find("#[derive(Logos)]").unwrap();
        return (format!("{}{}\n{}", &src[..at], ENUM_MARKER, &src[at..]), "ok");
    }
    if n >= MALFORMED_ITEMS.len() {
        return (RAW_MALFORMED[n - MALFORMED_ITEMS.len()].to_string(), "malformed");
    }
    let item = MALFORMED_ITEMS[n];
    (format!("#[derive(Logos)]\n#[logos({item})]\nenum T {{\n    #[token(\"a\")]\n    A,\n}}\n"), "malformed")
}

/// Specimens built *as members* of a must-reject category, as raw source text.
fn category_specimen(rng: &mut Rng, _i: usize) -> (String, &'static str) {
    category_specimen_nth(rng.below(category_specimen_count()))
}

/// Token-level mutations inside the logos attributes of a valid definition source.
fn mutate_source(src: &str, rng: &mut Rng) -> String {
    // operate on the attribute argument text between "#[token(" / "#[regex(" / "#[logos(" and the closing ")]"
    let mut lines: Vec<String> = src.lines().map(|l| l.to_string()).collect();
    let idxs: Vec<usize> = lines.iter().enumerate().filter(|(_, l)| l.contains("#[token(") || l.contains("#[regex(") || l.contains("#[logos(")).map(|(i, _)| i).collect();
    if idxs.is_empty() {
        return src.to_string();
    }
    let li = *rng.pick(&idxs);
    let line = lines[li].clone();
    let open = line.find('(').unwrap();
    let close = line.rfind(")]").unwrap_or(line.len());
    if close <= open {
        return src.to_string();
    }
    let inner = &line[open + 1..close];
    let Ok(ts) = inner.parse::<proc_macro2::TokenStream>() else { return src.to_string() };
    let mut toks: Vec<String> = ts.into_iter().map(|t| t.to_string()).collect();
    if toks.is_empty() {
        return src.to_string();
    }
    for _ in 0..rng.range(1, 3) {
        let i = rng.below(toks.len());
        match rng.below(8) {
            0 => {
                toks.remove(i);
            }
            1 => {
                let t = toks[i].clone();
                toks.insert(i, t);
            }
            2 => {
                let j = rng.below(toks.len());
                toks.swap(i, j);
            }
            3 => toks[i] = format!("({})", toks[i]),
            4 => toks.insert(i, rng.pick_str(&[",", "=", "priority", "callback", "ignore", "skip", "|", "case", "error", "subpattern", "1", "\"\"", "true"]).to_string()),
            5 => {
                // duplicate a whole comma-separated argument
                let start = toks[..i].iter().rposition(|t| t == ",").map(|p| p + 1).unwrap_or(0);
                let end = toks[i..].iter().position(|t| t == ",").map(|p| p + i).unwrap_or(toks.len());
                let mut arg: Vec<String> = vec![",".into()];
                arg.extend_from_slice(&toks[start..end]);
                let at = end;
                for (k, t) in arg.into_iter().enumerate() {
                    toks.insert(at + k, t);
                }
            }
            6 => toks[i] = rng.pick_str(&["()", "[]", "{}", "b\"x\"", "'c'", "3", "r\"a\"", "ignore()", "ignore(case)"]).to_string(),
            _ => toks.truncate(i.max(1)),
        }
        if toks.is_empty() {
            break;
        }
    }
    lines[li] = format!("{}({}{}", &line[..open], toks.join(" "), &line[close..]);
    lines.join("\n") + "\n"
}

pub fn fuzz_one(seed: u64, i: usize) -> (Vec<Value>, BTreeMap<String, usize>, Option<Value>) {
    let mut rng = Rng::derive(seed ^ 0xC19, i as u64);
    let name = format!("D{i}");
    let mut violations = vec![];
    let mut stats: BTreeMap<String, usize> = BTreeMap::new();
    let mut bump = |k: &str, stats: &mut BTreeMap<String, usize>| *stats.entry(k.to_string()).or_insert(0) += 1;
    let mut sample = None;
    let dummy = Def::new(&name, "raw", true);
    match i % 5 {
        4 => {
            // every generator family is an input too: the derive must not panic on any of them
            let def = match (i / 5) % 7 {
                6 => {
                    // rejected definitions whose diagnostics quote very long non-ASCII pattern text (any clipping or
                    // wrapping of a message has to respect character boundaries): a long alternation of non-ASCII words,
                    // padded by 0..3 ASCII characters so that every byte offset falls inside a character for some specimen
                    let word = rng.pick_str(&["привет", "λόγος", "日本語", "😀😀", "ünï", "ßẞ"]);
                    let n = rng.range(10, 500);
                    let pad = "a".repeat(rng.below(4));
                    let body = format!("{pad}{}", vec![word; n].join("|"));
                    let mut d = Def::new(&name, "long-diagnostic", true);
                    match rng.below(4) {
                        0 => {
                            d.push(Pat::regex(&body, 0));
                            d.push(Pat::regex(&body, 0));
                        }
                        1 => {
                            d.push(Pat::regex(&format!("{body}("), 0));
                        }
                        2 => {
                            let t: String = vec![word; n].concat();
                            d.push(Pat::token(&format!("{pad}{t}"), 0));
                            d.push(Pat::token(&format!("{pad}{t}"), 0));
                        }
                        _ => {
                            d.push(Pat::regex(&format!("({body})*"), 0));
                            d.push(Pat::skip(&format!("{body}|(?&nope)")));
                        }
                    }
                    d.normalize();
                    d
                }
                0 => gen::f11_literal(&mut rng, &name),
                1 => gen::f4_bytes(&mut rng, &name),
                2 => gen::f10_subpat(&mut rng, &name),
                3 => gen::f9_callbacks(&mut rng, &name),
                4 => gen::f3_unicode(&mut rng, &name),
                _ => gen::mixed(&mut rng, &name, i),
            };
            let a = analyze::run_generate(&def);
            bump("family-input", &mut stats);
            match &a.outcome {
                Outcome::Panicked(m) => violations.push(violation("C19", "derive-panicked", m, &def, None, None)),
                Outcome::Rejected(_) => bump("rejected", &mut stats),
                Outcome::Accepted => bump("accepted", &mut stats),
                _ => {}
            }
        }
        0 => {
            // category specimens from the F8 generator
            let (def, cat) = gen::f8_reject(&mut rng, &name);
            let a = analyze::run_generate(&def);
            bump(&format!("category:{cat}"), &mut stats);
            match &a.outcome {
                Outcome::Panicked(m) => violations.push(violation("C19", "derive-panicked", m, &def, None, None)),
                Outcome::Accepted if cat != "ambiguity?" => violations.push(violation("C19", "must-reject-accepted", &format!("definition of category '{cat}' was accepted"), &def, None, None)),
                Outcome::Rejected(_) => bump("rejected", &mut stats),
                _ => {}
            }
            if i % 200 == 0 {
                sample = Some(json!({"category": cat, "source": def.render(), "outcome": format!("{:?}", a.outcome).chars().take(200).collect::<String>()}));
            }
        }
        1 => {
            let (src, cat) = category_specimen(&mut rng, i / 4);
            let src = match src.find(ENUM_MARKER) {
                Some(at) => src[at + ENUM_MARKER.len()..].to_string(),
                None => src,
            };
            let a = analyze::run_generate_source(&src);
            bump(&format!("category:{cat}"), &mut stats);
            let mut d = dummy.clone();
            d.family = format!("raw:{cat}");
            let mut vj = |rule: &str, detail: &str| {
                let mut v = violation("C19", rule, detail, &d, None, None);
                v["definition"]["source"] = json!(src);
                v
            };
            match &a.outcome {
                Outcome::Panicked(m) => violations.push(vj("derive-panicked", m)),
                Outcome::Accepted if cat == "bad-variant-shape" => violations.push(vj("must-reject-accepted", "named / empty / multi-field variant accepted")),
                Outcome::Accepted if cat == "malformed-must-reject" => violations.push(vj("must-reject-accepted", "malformed #[logos(...)] item accepted: part of what was written is silently dropped or read as another item")),
                // a malformed argument list that is accepted has been read as something (an undefined callback path, say):
                // whatever that is, the output has to be Rust that rustc can report on - otherwise the user only sees
                // "proc-macro derive produced unparsable tokens" and loses the whole impl
                Outcome::Accepted if (cat == "malformed" || cat == "malformed-must-reject") && syn::parse_file(&a.output).is_err() => violations.push(vj("accepted-malformed-output-unparsable", &format!("a malformed attribute was accepted without any diagnostic and the derive output is not parsable Rust: {}", a.output.chars().take(300).collect::<String>()))),
                // recorded diagnostics must reach the user: rustc only reports "unparsable tokens" otherwise
                Outcome::Rejected(_) if syn::parse_file(&a.output).is_err() => violations.push(vj("diagnostics-in-unparsable-output", &format!("the derive recorded compile_error diagnostics but its output is not parsable Rust: {}", a.output.chars().take(300).collect::<String>()))),
                Outcome::Rejected(_) => bump("rejected", &mut stats),
                Outcome::Accepted => bump("accepted", &mut stats),
                _ => {}
            }
            if i % 200 == 1 {
                sample = Some(json!({"category": cat, "source": src, "outcome": format!("{:?}", a.outcome).chars().take(200).collect::<String>()}));
            }
        }
        _ => {
            // mutational fuzzing of a valid definition's attributes
            let base = match i % 3 {
                0 => crate::meta::perm_base(seed, i),
                1 => gen::f9_callbacks(&mut rng, &name),
                _ => gen::mixed(&mut rng, &name, i),
            };
            let src0 = base.render();
            let src = mutate_source(&src0, &mut rng);
            let a = analyze::run_generate_source(&src);
            bump("mutated", &mut stats);
            match &a.outcome {
                Outcome::Panicked(m) => {
                    let mut v = violation("C19", "derive-panicked", m, &base, None, None);
                    v["definition"]["source"] = json!(src);
                    violations.push(v);
                }
                Outcome::Rejected(_) => bump("rejected", &mut stats),
                Outcome::Accepted => bump("accepted", &mut stats),
                Outcome::Unparsable(_) => bump("unparsable-after-mutation", &mut stats),
            }
            if i % 200 == 2 {
                sample = Some(json!({"mutated_source": src, "outcome": format!("{:?}", a.outcome).chars().take(200).collect::<String>()}));
            }
        }
    }
    (violations, stats, sample)
}

pub fn fuzz(seed: u64, count: usize, threads: usize) -> Value {
    let res = run_parallel(count, threads, |i| fuzz_one(seed, i));
    let mut violations = vec![];
    let mut stats: BTreeMap<String, usize> = BTreeMap::new();
    let mut samples = vec![];
    for (v, st, s) in res {
        violations.extend(v);
        for (k, n) in st {
            *stats.entry(k).or_insert(0) += n;
        }
        if let Some(s) = s {
            if samples.len() < 12 {
                samples.push(s);
            }
        }
    }
    let rejected = *stats.get("rejected").unwrap_or(&0);
    json!({"property": "C19", "inputs": count, "stats": stats, "nontrivial": rejected, "violations": violations, "samples": samples})
}

/// Sources for the real-rustc sample (rsample): (source text, library outcome, messages, clean).
/// `clean` = the source was built to be well-typed apart from what logos itself rejects.
pub fn rsample_sources(seed: u64, count: usize) -> Vec<(String, String, Vec<String>, bool)> {
    let mut out = vec![];
    let mut i = 0usize;
    let fixed = category_specimen_count();
    while out.len() < count.max(fixed) {
        let mut rng = Rng::derive(seed ^ 0x4519, i as u64);
        i += 1;
        let (src, clean) = if i <= fixed {
            // malformed argument lists may legitimately be read as (undefined) callback paths: only
            // the no-panic and diagnostics-surface checks apply to them
            let (src, cat) = category_specimen_nth(i - 1);
            (src, cat != "malformed" && cat != "malformed-must-reject")
        } else {
            match i % 3 {
                0 => {
                    let base = perm_base_opts(seed, i, false);
                    (mutate_source(&base.render(), &mut rng), false)
                }
                1 => (perm_base_opts(seed, i, false).render(), true),
                _ => {
                    let (def, _) = gen::f8_reject(&mut rng, "T");
                    (def.render(), true)
                }
            }
        };
        let enum_src = match src.find(ENUM_MARKER) {
            Some(at) => src[at + ENUM_MARKER.len()..].to_string(),
            None => src.clone(),
        };
        let a = analyze::run_generate_source(&enum_src);
        let (kind, msgs) = match a.outcome {
            Outcome::Accepted => ("accepted".to_string(), vec![]),
            Outcome::Rejected(m) => ("rejected".to_string(), m),
            Outcome::Panicked(m) => ("panicked".to_string(), vec![m]),
            Outcome::Unparsable(_) => continue,
        };
        out.push((src, kind, msgs, clean));
    }
    for src in RAW_RUSTC_ONLY {
        out.push((src.to_string(), "accepted".to_string(), vec![], true));
    }
    out
}

/// Write three crates (library-accepted clean sources / accepted malformed ones / all others) with one
/// module per source, to be compiled by the stable toolchain. Separate crates so that expansion-time
/// errors of rejected or malformed definitions cannot hide type and borrow errors in accepted ones.
pub fn rsample_write(seed: u64, count: usize, dir: &std::path::Path) -> Value {
    let sources = rsample_sources(seed, count);
    let mut index = vec![];
    let mut libs = [String::new(), String::new(), String::new()];
    for l in libs.iter_mut() {
        l.push_str("#![allow(dead_code, unused_imports, unused_variables, non_camel_case_types, non_snake_case, clippy::all)]\n");
    }
    // acc: accepted and clean (must compile completely, so that type and borrow checking is reached);
    // mal: accepted although malformed (may be read as undefined callback paths; only panics count); rej: the rest
    for sub in ["acc", "mal", "rej"] {
        std::fs::create_dir_all(dir.join(sub).join("src")).unwrap();
    }
    for (i, (src, kind, msgs, clean)) in sources.iter().enumerate() {
        let which = if kind == "accepted" && *clean { 0 } else if kind == "accepted" { 1 } else { 2 };
        let sub = ["acc", "mal", "rej"][which];
        libs[which].push_str(&format!("mod m{i};\n"));
        let mut m = String::from("use logos::{Lexer, Logos, Skip, Filter, FilterResult};\n");
        m.push_str("type VErr = ();\ntype VExtras = ();\ntype E = ();\ntype F = ();\ntype X = ();\ntype Y = ();\n");
        m.push_str("fn f<'s, T: Logos<'s>>(_lex: &mut Lexer<'s, T>) {}\nfn g<'s, T: Logos<'s>>(_lex: &mut Lexer<'s, T>) {}\n");
        // callbacks referenced by generated definitions: d<i>_cb<leaf>, d<i>_errcb
        let mut names: Vec<String> = vec![];
        let bytes = src.as_bytes();
        let mut k = 0;
        while k < bytes.len() {
            if (bytes[k] == b'd') && (k == 0 || !(bytes[k - 1].is_ascii_alphanumeric() || bytes[k - 1] == b'_')) {
                let mut j = k + 1;
                while j < bytes.len() && (bytes[j].is_ascii_alphanumeric() || bytes[j] == b'_') {
                    j += 1;
                }
                let w = &src[k..j];
                if (w.contains("_cb") || w.ends_with("_errcb")) && w[1..].chars().next().map(|c| c.is_ascii_digit()).unwrap_or(false) && !names.contains(&w.to_string()) {
                    names.push(w.to_string());
                }
                k = j;
            } else {
                k += 1;
            }
        }
        // a callback attached to a variant with a field must return something that can become the field
        let on_value_variant = |name: &str| -> bool {
            let Some(pos) = src.find(name) else { return false };
            let line_start = src[..pos].rfind('\n').map(|x| x + 1).unwrap_or(0);
            let rest = &src[line_start..];
            if rest.trim_start().starts_with("#[logos(") {
                return false;
            }
            for l in rest.lines().skip(1) {
                let t = l.trim_start();
                if t.starts_with("#[") || t.starts_with("//") {
                    continue;
                }
                return t.contains('(');
            }
            false
        };
        for n in names {
            if src.contains(&format!("{n}::skip")) {
                // a user function called `skip` in a module of its own
                let ret = if on_value_variant(&n) { ("<'s, T: Logos<'s>, R>", "Filter<R>", "Filter::Skip") } else { ("<'s, T: Logos<'s>>", "()", "") };
                m.push_str(&format!("mod {n} {{ use super::*; pub fn skip{}(_lex: &mut Lexer<'s, T>) -> {} {{ {} }} }}\n", ret.0, ret.1, ret.2));
                continue;
            }
            if n.ends_with("_errcb") {
                m.push_str(&format!("fn {n}<'s, T: Logos<'s>>(_lex: &mut Lexer<'s, T>) -> VErr {{}}\n"));
            } else if on_value_variant(&n) {
                m.push_str(&format!("fn {n}<'s, T: Logos<'s>, R>(_lex: &mut Lexer<'s, T>) -> Filter<R> {{ Filter::Skip }}\n"));
            } else {
                m.push_str(&format!("fn {n}<'s, T: Logos<'s>>(_lex: &mut Lexer<'s, T>) {{}}\n"));
            }
        }
        m.push_str(src);
        std::fs::write(dir.join(sub).join(format!("src/m{i}.rs")), m).unwrap();
        index.push(json!({"module": i, "crate": sub, "library_outcome": kind, "library_messages": msgs, "clean": clean, "source": src}));
    }
    for (which, sub) in ["acc", "mal", "rej"].iter().enumerate() {
        let d = dir.join(sub);
        std::fs::write(d.join("src/lib.rs"), &libs[which]).unwrap();
        std::fs::write(d.join("Cargo.toml"), format!("[package]\nname = \"rsample_{sub}\"\nversion = \"0.0.0\"\nedition = \"2021\"\n\n[workspace]\n\n[dependencies]\nlogos = {{ path = \"{repo}\" }}\n\n[profile.dev]\ndebug = 0\nincremental = false\n\n[profile.dev.build-override]\nopt-level = 2\n", repo = crate::repo_root())).unwrap();
        std::fs::create_dir_all(d.join(".cargo")).unwrap();
        std::fs::write(d.join(".cargo/config.toml"), "[net]\noffline = true\n").unwrap();
        let _ = std::fs::copy(format!("{}/harness/Cargo.lock", crate::verif_root()), d.join("Cargo.lock"));
    }
    let v = json!({"modules": index});
    std::fs::write(dir.join("index.json"), serde_json::to_string(&v).unwrap()).unwrap();
    json!({"modules": sources.len()})
}
