//! C17 / C16: enum sources for logos-cli (F13) and an independent syn-based oracle for its output.

use std::path::Path;
use std::str::FromStr;

use proc_macro2::TokenStream;
use quote::{quote, ToTokens};
use serde_json::{json, Value};
use syn::punctuated::Punctuated;
use vmon::rng::Rng;

/// F13: enum sources with derives in any position, path-qualified derives, several derive
/// attributes, cfg_attr, repr, doc comments, attributes on variants and fields, lifetimes.
/// Conditional compilation with predicates that are trivially true / false: what the derive sees is the enum after rustc
/// has evaluated them (cfg_attr(all(), ..) expanded, cfg(any()) variants gone).
const CFG_SPECIMENS: &[&str] = &[
    "#[cfg_attr(all(), derive(Logos), logos(skip \" \"))]\n#[derive(Debug, PartialEq)]\nenum TokCfgA {\n    #[cfg_attr(all(), token(\"a\"))]\n    A,\n    #[token(\"b\")]\n    B,\n}\n",
    "#[derive(Logos, Debug, PartialEq)]\nenum TokCfgB {\n    #[token(\"a\")]\n    A,\n    #[cfg(any())]\n    #[token(\"d\")]\n    D,\n    #[regex(\"[0-9]+\")]\n    N,\n}\n",
];

pub fn gen_source(rng: &mut Rng, i: usize) -> String {
    if i == 7 || i == 11 {
        return CFG_SPECIMENS[(i == 11) as usize].to_string();
    }
    // the derive may be reached through any path (re-exports, renamed dependencies, `#[logos(crate = ..)]` setups)
    let logos_forms = ["Logos", "logos::Logos", "::logos::Logos", "Logos", "logos::Logos", "logos_crate::Logos", "my::deps::logos::Logos", "::some::path::_logos::Logos", "crate::reexports::Logos"];
    let others = ["Debug", "Clone", "PartialEq", "serde::Serialize", "::core::fmt::Debug", "core::hash::Hash", "Eq", "std::cmp::PartialOrd", "Copy", "::serde::Deserialize"];
    let mut s = String::new();
    if rng.chance(1, 2) {
        s.push_str("/// Tokens of the language.\n///\n/// Second paragraph.\n");
    }
    if rng.chance(1, 3) {
        s.push_str("#[allow(dead_code)]\n");
    }
    // derive attributes
    let n_derives = rng.range(1, 2);
    let logos_in = rng.below(n_derives);
    for d in 0..n_derives {
        let mut items: Vec<String> = vec![];
        let k = rng.range(0, 4);
        let mut pool: Vec<&str> = others.to_vec();
        rng.shuffle(&mut pool);
        for o in pool.into_iter().take(k) {
            items.push(o.to_string());
        }
        if d == logos_in {
            let pos = rng.below(items.len() + 1);
            items.insert(pos, rng.pick(&logos_forms).to_string());
        }
        let trailing = if rng.chance(1, 5) && !items.is_empty() { "," } else { "" };
        s.push_str(&format!("#[derive({}{})]\n", items.join(", "), trailing));
        if rng.chance(1, 4) {
            s.push_str("#[cfg_attr(feature = \"extra\", derive(Hash))]\n");
        }
    }
    if rng.chance(1, 3) {
        s.push_str("#[repr(u8)]\n");
    }
    let with_lt = rng.chance(1, 3);
    let mut logos_items: Vec<&str> = vec![];
    if rng.chance(2, 3) {
        logos_items.push("skip r\"[ \\t\\n]+\"");
    }
    if rng.chance(1, 4) {
        logos_items.push("error = String");
    }
    if rng.chance(1, 4) {
        logos_items.push("extras = u32");
    }
    if rng.chance(1, 6) {
        logos_items.push("utf8 = true");
    }
    if !logos_items.is_empty() {
        if rng.chance(1, 3) && logos_items.len() > 1 {
            for it in &logos_items {
                s.push_str(&format!("#[logos({it})]\n"));
            }
        } else {
            s.push_str(&format!("#[logos({})]\n", logos_items.join(", ")));
        }
    }
    if rng.chance(1, 4) {
        s.push_str("#[doc = \"attribute style doc\"]\n");
    }
    // attributes of other derives that merely share a name with logos' legacy helper attributes
    if rng.chance(1, 4) {
        s.push_str(rng.pick_str(&["#[error(\"lexing failed\")]\n", "#[extras(crate_name = \"x\")]\n", "#[end]\n", "#[error(transparent)]\n#[extras]\n"]));
    }
    let vis = rng.pick_str(&["pub ", "", "pub(crate) "]);
    let repr_u8 = s.contains("#[repr(u8)]");
    s.push_str(&format!("{vis}enum Tok{i}{} {{\n", if with_lt && !repr_u8 { "<'a>" } else { "" }));
    let kws = ["fn", "let", "if", "else", "+", "-", "==", "(", ")", "while", "..", "::", "struct", "enum", "match", "return", "break", "continue", "loop", "for", "in", "impl", "trait", "pub", "use", "mod",
        "const", "static", "mut", "ref", "as", "where", "unsafe", "extern", "crate", "self", "super", "type", "dyn", "move", "async", "await", "true", "false", "->", "=>", "<=", ">=", "!=", "&&", "||", "<<", ">>",
        "+=", "-=", "*=", "/=", "{", "}", "[", "]", ";", ",", ".", "yield", "macro", "union", "box", "try", "abstract", "final", "override", "virtual"];
    // every 8th input is a realistically large lexer (dozens of keywords and operators): its output is far larger than a pipe buffer
    let nv = if i % 8 == 5 { rng.range(24, 70) } else { rng.range(1, 6) };
    let mut used: Vec<&str> = vec![];
    for v in 0..nv {
        if rng.chance(1, 3) {
            s.push_str(&format!("    /// Variant {v}.\n"));
        }
        if rng.chance(1, 5) {
            s.push_str("    #[doc(hidden)]\n");
        }
        let mut kw = *rng.pick(&kws);
        while used.contains(&kw) {
            kw = *rng.pick(&kws);
            if used.len() >= kws.len() {
                break;
            }
        }
        used.push(kw);
        let prio = if rng.chance(1, 4) { format!(", priority = {}", rng.range(20, 40)) } else { String::new() };
        s.push_str(&format!("    #[token({:?}{prio})]\n", kw));
        if rng.chance(1, 4) {
            s.push_str("    #[cfg(all())]\n");
        }
        s.push_str(&format!("    K{v},\n"));
    }
    if rng.chance(1, 3) {
        // literals that span several lines of the input file: a verbose-mode pattern, a raw literal holding a line break
        // that matters, a cooked literal with a line break, a byte raw literal
        match rng.below(4) {
            0 => s.push_str("    #[regex(r\"(?x)\n        0x [0-9a-f]+   # hexadecimal\n      | 0b [01]+       # binary\n    \")]\n    Radix,\n"),
            1 => s.push_str("    #[regex(r\"<<\n>>\")]\n    Heredoc,\n"),
            2 => s.push_str("    #[token(\"\\\\\n\")]\n    LineContinuation,\n"),
            _ => s.push_str("    #[regex(br#\"@@\n@\"#)]\n    AtLines,\n"),
        }
    }
    if rng.chance(2, 3) {
        s.push_str("    #[regex(\"[0-9]+\", |lex| lex.slice().len())]\n");
        let fattr = *rng.pick(&["#[allow(unused)] ", "", "#[end] ", "#[extras(skip)] "]);
        s.push_str(&format!("    Num({fattr}usize),\n"));
    }
    if with_lt && !repr_u8 {
        s.push_str("    #[regex(\"[a-z]+\")]\n    #[regex(\"_[a-z]*\", priority = 1)]\n    Ident(&'a str),\n");
    } else if rng.chance(1, 2) {
        s.push_str("    #[regex(\"[a-z_]+[0-9]?\")]\n    Ident,\n");
    }
    s.push_str("}\n");
    s
}

pub fn gen_files(seed: u64, count: usize, dir: &Path) -> Value {
    std::fs::create_dir_all(dir).unwrap();
    let mut samples = vec![];
    for i in 0..count {
        let mut rng = Rng::derive(seed ^ 0xC17, i as u64);
        let mut src = gen_source(&mut rng, i);
        // every fifth input file has CRLF line endings (a Windows checkout): rustc normalises CRLF to LF when it loads a
        // source file, so the derive - whose output the CLI has to reproduce - never sees a CR
        if i % 5 == 3 {
            src = src.replace('\n', "\r\n");
        }
        std::fs::write(dir.join(format!("in_{i}.rs")), &src).unwrap();
        if i < 2 {
            samples.push(src);
        }
    }
    json!({"files": count, "samples": samples})
}

/// Flatten a token stream into leaf tokens (spacing of punctuation is irrelevant).
pub fn flat(ts: TokenStream, out: &mut Vec<String>) {
    for tt in ts {
        match tt {
            proc_macro2::TokenTree::Group(g) => {
                let (o, c) = match g.delimiter() {
                    proc_macro2::Delimiter::Parenthesis => ("(", ")"),
                    proc_macro2::Delimiter::Brace => ("{", "}"),
                    proc_macro2::Delimiter::Bracket => ("[", "]"),
                    proc_macro2::Delimiter::None => ("", ""),
                };
                out.push(o.to_string());
                flat(g.stream(), out);
                out.push(c.to_string());
            }
            proc_macro2::TokenTree::Punct(p) => out.push(p.as_char().to_string()),
            other => out.push(other.to_string()),
        }
    }
}

fn flat_of(ts: TokenStream) -> Vec<String> {
    let mut v = vec![];
    flat(ts, &mut v);
    v
}

fn is_logos_attr(a: &syn::Attribute) -> bool {
    a.path().is_ident("logos") || a.path().is_ident("token") || a.path().is_ident("regex")
}

/// Canonicalise derive attributes: parse the list as paths, optionally drop `Logos`, re-print;
/// drop derive attributes that end up empty.
fn canon_attrs(attrs: &mut Vec<syn::Attribute>, strip: bool) -> Result<(), String> {
    let mut out = vec![];
    for a in attrs.drain(..) {
        if strip && is_logos_attr(&a) {
            continue;
        }
        if a.path().is_ident("derive") {
            if let syn::Meta::List(list) = &a.meta {
                let paths = list
                    .parse_args_with(Punctuated::<syn::Path, syn::Token![,]>::parse_terminated)
                    .map_err(|e| format!("derive list does not parse as paths: {e} in `{}`", list.tokens))?;
                let kept: Vec<syn::Path> = paths.into_iter().filter(|p| !(strip && p.segments.last().map(|s| s.ident == "Logos").unwrap_or(false))).collect();
                if kept.is_empty() {
                    continue;
                }
                let new: syn::Attribute = syn::parse_quote!(#[derive(#(#kept),*)]);
                out.push(new);
                continue;
            }
        }
        out.push(a);
    }
    *attrs = out;
    Ok(())
}

fn canon_enum(mut item: syn::ItemEnum, strip: bool) -> Result<Vec<String>, String> {
    canon_attrs(&mut item.attrs, strip)?;
    for v in item.variants.iter_mut() {
        canon_attrs(&mut v.attrs, strip)?;
        for f in v.fields.iter_mut() {
            canon_attrs(&mut f.attrs, strip)?;
        }
    }
    Ok(flat_of(item.to_token_stream()))
}

/// `#[cfg_attr(all(), a, b)]` -> `#[a] #[b]`, `#[cfg_attr(any(), ..)]` -> nothing; returns whether anything changed.
fn expand_cfg_attrs(attrs: &mut Vec<syn::Attribute>) -> bool {
    let mut changed = false;
    let mut out = vec![];
    for a in attrs.drain(..) {
        if a.path().is_ident("cfg_attr") {
            if let syn::Meta::List(list) = &a.meta {
                if let Ok(metas) = list.parse_args_with(Punctuated::<syn::Meta, syn::Token![,]>::parse_terminated) {
                    let mut it = metas.into_iter();
                    let pred = it.next().map(|m| m.to_token_stream().to_string().replace(' ', ""));
                    match pred.as_deref() {
                        Some("all()") => {
                            for m in it {
                                let na: syn::Attribute = syn::parse_quote!(#[#m]);
                                out.push(na);
                            }
                            changed = true;
                            continue;
                        }
                        Some("any()") => {
                            changed = true;
                            continue;
                        }
                        _ => {}
                    }
                }
            }
        }
        out.push(a);
    }
    *attrs = out;
    changed
}

fn cfg_false(attrs: &[syn::Attribute]) -> bool {
    attrs.iter().any(|a| a.path().is_ident("cfg") && matches!(&a.meta, syn::Meta::List(l) if l.tokens.to_string().replace(' ', "") == "any()"))
}

/// The enum as the derive macro receives it: trivially true / false `cfg_attr` and `cfg` evaluated.
/// Returns None when nothing had to be evaluated.
fn as_rustc_hands_it_to_the_derive(item: &syn::ItemEnum) -> Option<syn::ItemEnum> {
    let mut e = item.clone();
    let mut changed = expand_cfg_attrs(&mut e.attrs);
    let before = e.variants.len();
    e.variants = e.variants.into_iter().filter(|v| !cfg_false(&v.attrs)).collect();
    changed |= e.variants.len() != before;
    for v in e.variants.iter_mut() {
        changed |= expand_cfg_attrs(&mut v.attrs);
        for f in v.fields.iter_mut() {
            changed |= expand_cfg_attrs(&mut f.attrs);
        }
    }
    if changed { Some(e) } else { None }
}

/// Check one (input, output) pair. Returns the list of problems (empty = fine).
pub fn oracle(input: &str, output: &str, formatted: bool) -> Vec<String> {
    let mut problems = vec![];
    // what the derive sees is the file as rustc loads it: CRLF normalised to LF
    let input = &input.replace("\r\n", "\n");
    let in_enum: syn::ItemEnum = match syn::parse_str(input) {
        Ok(e) => e,
        Err(e) => return vec![format!("HARNESS: input does not parse: {e}")],
    };
    let out_file: syn::File = match syn::parse_file(output) {
        Ok(f) => f,
        Err(e) => return vec![format!("output is not valid Rust: {e}")],
    };
    if out_file.items.is_empty() {
        return vec!["output holds no items".into()];
    }
    if formatted {
        // rustfmt may add trailing commas etc.; the orchestrator compares with rustfmt(plain output)
        return problems;
    }
    // conditional compilation around logos' own attributes: the derive sees the evaluated enum; what exactly the *stripped*
    // enum should look like is not something the statement settles, so only the implementation half is judged there
    let evaluated = as_rustc_hands_it_to_the_derive(&in_enum);
    let expected = match canon_enum(in_enum, true) {
        Ok(s) => s,
        Err(e) => return vec![format!("HARNESS: {e}")],
    };
    if evaluated.is_none() {
    match &out_file.items[0] {
        syn::Item::Enum(e) => match canon_enum(e.clone(), false) {
            Ok(actual) => {
                if actual != expected {
                    problems.push(format!("stripped enum differs: expected `{}` got `{}`", expected.join(" "), actual.join(" ")));
                }
                // nothing logos-specific may survive
                let txt = e.to_token_stream().to_string();
                for needle in ["# [logos", "# [token", "# [regex", "Logos"] {
                    if txt.contains(needle) {
                        problems.push(format!("output enum still contains `{needle}`"));
                    }
                }
            }
            Err(e) => problems.push(format!("output enum has a malformed derive list: {e}")),
        },
        _ => problems.push("first output item is not an enum".into()),
    }
    }
    // the rest must be what the derive generates for the input
    let gen = match &evaluated {
        Some(e) => logos_codegen::generate(e.to_token_stream()).to_string(),
        None => logos_codegen::generate(TokenStream::from_str(input).unwrap()).to_string(),
    };
    let rest: TokenStream = out_file.items[1..].iter().map(|i| i.to_token_stream()).collect();
    let (fa, fb) = (flat_of(rest), flat_of(TokenStream::from_str(&gen).unwrap()));
    if fa != fb {
        let k = fa.iter().zip(&fb).position(|(a, b)| a != b).unwrap_or(fa.len().min(fb.len()));
        problems.push(format!("implementation part differs from generate() at token #{k}: {:?} vs {:?} ({} vs {} tokens)", fa.get(k), fb.get(k), fa.len(), fb.len()));
    }
    let _ = quote!();
    problems
}

pub fn oracle_batch(dir: &Path) -> Value {
    let mut checked = 0;
    let mut problems = vec![];
    let mut i = 0;
    loop {
        let inp = dir.join(format!("in_{i}.rs"));
        if !inp.exists() {
            break;
        }
        for suffix in ["out", "fmt"] {
            let outp = dir.join(format!("{suffix}_{i}.rs"));
            if !outp.exists() {
                continue;
            }
            let input = std::fs::read_to_string(&inp).unwrap();
            let output = std::fs::read_to_string(&outp).unwrap();
            checked += 1;
            for p in oracle(&input, &output, suffix == "fmt") {
                problems.push(json!({"file": i, "kind": suffix, "problem": p, "input": input}));
            }
        }
        i += 1;
    }
    json!({"checked": checked, "problems": problems})
}
