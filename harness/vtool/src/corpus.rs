//! Corpus writer: accepted definitions -> a cargo workspace of shard binaries + corpus.json.

use std::fmt::Write as _;
use std::path::Path;

use serde_json::{json, Value};
use vmon::gen;
use vmon::rng::Rng;
use vmon::spec::{Def, VarKind};

use crate::analyze::{self, Outcome};

pub struct CorpusDef {
    pub def: Def,
    pub graph: vmon::graph::GraphData,
}

fn write_if_changed(path: &Path, content: &str) {
    if let Ok(old) = std::fs::read_to_string(path) {
        if old == content {
            return;
        }
    }
    if let Some(p) = path.parent() {
        std::fs::create_dir_all(p).unwrap();
    }
    std::fs::write(path, content).unwrap();
}

/// Select accepted definitions for a profile.
pub fn select(profile: &str, seed: u64, count: usize, max_states: usize) -> (Vec<CorpusDef>, usize) {
    let mut out: Vec<CorpusDef> = vec![];
    let mut tried = 0usize;
    // callbacks profile: the curated definitions (one per code-generation feature, incl. the look-around
    // shapes) decorated with callbacks come first, random ones follow
    let curated = match profile {
        "mixed" => gen::f7_curated(),
        "callbacks" => gen::f7_curated()
            .into_iter()
            .enumerate()
            .filter(|(_, d)| !d.pats.is_empty() && d.pats.len() <= 8 && d.variants.iter().all(|v| *v == vmon::spec::VarKind::Unit))
            .map(|(k, d)| gen::f9_decorate(&mut Rng::derive(seed ^ 0xF9, k as u64), d))
            .collect(),
        _ => vec![],
    };
    let mut i = 0usize;
    while out.len() < count && tried < count * 20 + 100 {
        let name = format!("D{}", out.len());
        let mut def = if i < curated.len() {
            curated[i].clone()
        } else {
            let mut rng = Rng::derive(seed ^ 0xC0_4905, i as u64);
            match profile {
                // every 8th candidate is a definition logos must reject (empty-matching patterns, non-UTF-8
                // patterns in str mode in every position, greedy dots, look-behind, ...): on a correct tree it
                // never enters the corpus; if a change makes the derive accept it, its lexer gets exercised
                "mixed" if i % 8 == 7 => must_reject_candidate(&mut rng, &name, i),
                "mixed" => gen::mixed(&mut rng, &name, i),
                "callbacks" => gen::f9_callbacks(&mut rng, &name),
                "literals" => gen::f11_literal(&mut rng, &name),
                "twins" => {
                    let mut d = match i % 5 {
                        0 => gen::f3_unicode(&mut rng, &name),
                        1 => gen::f1_soup(&mut rng, &name),
                        2 => gen::f2_keywords(&mut rng, &name),
                        3 => gen::f10_subpat(&mut rng, &name),
                        _ => gen::f6_loops(&mut rng, &name),
                    };
                    d.utf8 = true;
                    if i % 5 == 3 && rng.chance(1, 2) {
                        let t = rng.pick_str(&["\\w+", "[^x]", ".", "\\pL", "[^\\x00-\\x7F]+", "(?i)k", "\\S"]);
                        d.subpats.push((format!("uni{i}"), vmon::spec::Lit::s(t)));
                        if rng.chance(1, 2) {
                            d.push(vmon::spec::Pat::new(vmon::spec::PatKind::Regex, vmon::spec::Lit::b(format!("#(?&uni{i})+").as_bytes()), 0).prio(70 + rng.below(9)));
                        } else {
                            d.push(vmon::spec::Pat::regex(&format!("#(?&uni{i})"), 0).prio(70 + rng.below(9)));
                        }
                        d.normalize();
                    }
                    d
                }
                other => panic!("unknown profile {other}"),
            }
        };
        def.name = name;
        i += 1;
        tried += 1;
        let a = analyze::run_generate(&def);
        if a.outcome != Outcome::Accepted {
            continue;
        }
        let Some(g) = a.graph else { continue };
        // the size limit bounds compile time of the random part; curated definitions are always kept
        let is_curated = i <= curated.len();
        if (g.states.len() > max_states && !is_curated) || g.leaves.len() != def.pats.len() {
            continue;
        }
        if analyze::build_reference(&def).is_err() {
            continue;
        }
        if profile == "twins" {
            let mut twin = def.clone();
            twin.utf8 = false;
            let b = analyze::run_generate(&twin);
            if b.outcome != Outcome::Accepted {
                continue;
            }
        }
        // look-alike enums in one crate (= one proc-macro process): every fifth definition with three or more variants
        // is followed by the same definition with its variants declared in another order - the same set of
        // (pattern, priority) pairs, other leaf numbers, so state the code generator keeps between derives shows
        let look_alike = if (profile == "callbacks" || profile == "mixed") && out.len() % 5 == 2 && def.variants.len() >= 3 && def.raw_variants.is_empty() && out.len() + 1 < count {
            let mut d2 = def.rotated_variants(1 + out.len() % 2);
            d2.name = format!("D{}", out.len() + 1);
            d2.family = format!("{}+lookalike", def.family);
            let a2 = analyze::run_generate(&d2);
            match (a2.outcome == Outcome::Accepted, a2.graph) {
                (true, Some(g2)) if g2.leaves.len() == d2.pats.len() && analyze::build_reference(&d2).is_ok() => Some(CorpusDef { def: d2, graph: g2 }),
                _ => None,
            }
        } else {
            None
        };
        out.push(CorpusDef { def, graph: g });
        if let Some(l) = look_alike {
            out.push(l);
        }
    }
    (out, tried)
}

fn must_reject_candidate(rng: &mut Rng, name: &str, i: usize) -> Def {
    use vmon::spec::{Lit, Pat, PatKind};
    if i % 16 == 7 {
        loop {
            let (d, cat) = gen::f8_reject(rng, name);
            if cat != "ambiguity?" && cat != "unsupported" && cat != "undefined-subpattern" {
                return d;
            }
        }
    }
    // str-mode definition with a pattern that can match invalid UTF-8, in any position
    let mut d = match rng.below(3) {
        0 => gen::f2_keywords(rng, name),
        1 => gen::f6_loops(rng, name),
        _ => gen::f1_soup(rng, name),
    };
    d.utf8 = true;
    if d.pats.len() > 6 {
        d.pats.truncate(6);
        let nv = d.pats.iter().filter(|p| p.kind != PatKind::Skip).count();
        let mut k = 0;
        for p in d.pats.iter_mut() {
            if p.kind != PatKind::Skip {
                p.variant = k;
                k += 1;
            }
        }
        d.variants.truncate(nv);
    }
    let cands: &[&[u8]] = &[b"\xC3", b"\xE2\x82", b"(?-u:[\\xC0-\\xFF])", b"(?-u:[\\x80-\\xBF])+", b"\xF0\x9F", b"(?s-u:.)"];
    let c: &[u8] = *rng.pick(cands);
    let lit = if std::str::from_utf8(c).is_ok() { Lit::s(std::str::from_utf8(c).unwrap()) } else { Lit::b(c) };
    let kind = match rng.below(3) { 0 | 1 => PatKind::Skip, _ => PatKind::Regex };
    let mut p = Pat::new(kind, lit, 0);
    p.priority = Some(90 + rng.below(9));
    d.push(p);
    d.normalize();
    d
}

fn render_def_module(cd: &CorpusDef) -> String {
    let def = &cd.def;
    let mut s = String::new();
    let modname = def.name.to_lowercase();
    writeln!(s, "pub mod {modname} {{").unwrap();
    writeln!(s, "    #![allow(unused_imports, dead_code, non_snake_case, clippy::all)]").unwrap();
    writeln!(s, "    use vrt::prelude::*;").unwrap();
    for line in def.render_full().lines() {
        writeln!(s, "    {line}").unwrap();
    }
    let has_lt = def.variants.iter().any(|v| *v == VarKind::Slice);
    let ty = if has_lt { format!("{}<'_>", def.name) } else { def.name.clone() };
    let impl_hdr = if has_lt { format!("impl<'s> vrt::VTok for {}<'s>", def.name) } else { format!("impl vrt::VTok for {}", def.name) };
    writeln!(s, "    {impl_hdr} {{").unwrap();
    writeln!(s, "        fn vidx(&self) -> u32 {{ match self {{").unwrap();
    for (vi, vk) in def.variants.iter().enumerate() {
        match vk {
            VarKind::Unit => writeln!(s, "            {}::V{vi} => {vi},", def.name).unwrap(),
            _ => writeln!(s, "            {}::V{vi}(_) => {vi},", def.name).unwrap(),
        }
    }
    if def.variants.is_empty() {
        writeln!(s, "            _ => 0,").unwrap();
    }
    writeln!(s, "        }} }}").unwrap();
    writeln!(s, "        fn payload(&self) -> u64 {{ match self {{").unwrap();
    for (vi, vk) in def.variants.iter().enumerate() {
        match vk {
            VarKind::Unit => {}
            VarKind::Slice => {
                let f = if def.utf8 { "payload_str" } else { "payload_bytes" };
                writeln!(s, "            {}::V{vi}(x) => vrt::{f}(x),", def.name).unwrap()
            }
            VarKind::U64 => writeln!(s, "            {}::V{vi}(x) => *x,", def.name).unwrap(),
        }
    }
    writeln!(s, "            _ => 0,").unwrap();
    writeln!(s, "        }} }}").unwrap();
    writeln!(s, "    }}").unwrap();
    if def.utf8 {
        writeln!(s, "    pub fn run(src: &[u8], o: &vrt::Opts) -> vrt::RunOut {{ vrt::run_str::<{ty}>(std::str::from_utf8(src).expect(\"driver feeds valid UTF-8 in str mode\"), o) }}").unwrap();
        writeln!(s, "    pub fn spanned(src: &[u8], n: usize) -> Vec<vrt::Item> {{ vrt::run_spanned_str::<{ty}>(std::str::from_utf8(src).unwrap(), n) }}").unwrap();
    } else {
        writeln!(s, "    pub fn run(src: &[u8], o: &vrt::Opts) -> vrt::RunOut {{ vrt::run_bytes::<{ty}>(src, o) }}").unwrap();
        writeln!(s, "    pub fn spanned(src: &[u8], n: usize) -> Vec<vrt::Item> {{ vrt::run_spanned_bytes::<{ty}>(src, n) }}").unwrap();
    }
    writeln!(s, "}}").unwrap();
    s
}

pub fn write(dir: &Path, profile: &str, seed: u64, defs: &[CorpusDef], shards: usize, tried: usize) {
    std::fs::create_dir_all(dir).unwrap();
    // twins: every definition also as utf8 = false copy named <name>B
    let mut all: Vec<CorpusDef> = vec![];
    for cd in defs {
        all.push(CorpusDef { def: cd.def.clone(), graph: cd.graph.clone() });
        if profile == "twins" {
            let mut twin = cd.def.clone();
            twin.utf8 = false;
            twin.name = format!("{}B", cd.def.name);
            let b = analyze::run_generate(&twin);
            if let (Outcome::Accepted, Some(g)) = (&b.outcome, b.graph) {
                all.push(CorpusDef { def: twin, graph: g });
            }
        }
    }
    let corpus = json!({
        "profile": profile, "seed": seed, "tried": tried,
        "defs": all.iter().map(|cd| json!({"def": cd.def.to_json(), "graph": cd.graph.to_json()})).collect::<Vec<Value>>(),
    });
    write_if_changed(&dir.join("corpus.json"), &serde_json::to_string(&corpus).unwrap());

    let mut members = vec![];
    for sh in 0..shards {
        let name = format!("shard{sh}");
        members.push(format!("\"{name}\""));
        let sdir = dir.join(&name);
        let mut defs_rs = String::from("// generated by vtool gen-corpus; do not edit\n");
        let mut table = String::from("pub static TABLE: &[vrt::Entry] = &[\n");
        for (i, cd) in all.iter().enumerate() {
            // twins stay in the same shard as their original
            // ... and so do look-alikes (same crate = same proc-macro process, expanded right after the original)
            let owner = if profile == "twins" { i / 2 } else if cd.def.family.ends_with("+lookalike") && i > 0 { i - 1 } else { i };
            if owner % shards != sh {
                continue;
            }
            defs_rs.push_str(&render_def_module(cd));
            let m = cd.def.name.to_lowercase();
            writeln!(table, "    vrt::Entry {{ name: \"{}\", utf8: {}, run: {m}::run, spanned: {m}::spanned }},", cd.def.name, cd.def.utf8).unwrap();
        }
        table.push_str("];\n");
        defs_rs.push_str(&table);
        write_if_changed(&sdir.join("src/defs.rs"), &defs_rs);
        write_if_changed(&sdir.join("src/main.rs"), "mod defs;\nfn main() {\n    let t = std::thread::Builder::new().stack_size(256 << 20).spawn(|| vrt::driver::main(defs::TABLE)).unwrap();\n    t.join().unwrap();\n}\n");
        write_if_changed(&sdir.join("Cargo.toml"), &format!(
            "[package]\nname = \"{name}\"\nversion = \"0.0.0\"\nedition = \"2021\"\n\n[features]\nforbid_unsafe = [\"vrt/forbid_unsafe\", \"logos/forbid_unsafe\"]\nstate_machine_codegen = [\"vrt/state_machine_codegen\", \"logos/state_machine_codegen\"]\n\n[dependencies]\nvrt = {{ path = \"{root}/harness/vrt\" }}\nlogos = {{ path = \"{repo}\", features = [\"verif_hooks\"] }}\n", root = crate::verif_root(), repo = crate::repo_root()));
    }
    write_if_changed(&dir.join("Cargo.toml"), &format!(
        "[workspace]\nmembers = [{}]\nresolver = \"2\"\n\n[profile.dev]\nopt-level = 0\ndebug = 0\nincremental = false\ndebug-assertions = true\noverflow-checks = true\n\n[profile.dev.package.\"*\"]\nopt-level = 2\n\n[profile.dev.build-override]\nopt-level = 2\n\n[profile.release]\nopt-level = 2\ndebug = 0\nincremental = false\ncodegen-units = 16\n\n[profile.release.build-override]\nopt-level = 2\n",
        members.join(", ")));
    write_if_changed(&dir.join(".cargo/config.toml"), "[net]\noffline = true\n");
    if !dir.join("Cargo.lock").exists() {
        let _ = std::fs::copy(format!("{}/harness/Cargo.lock", crate::verif_root()), dir.join("Cargo.lock"));
    }
}
