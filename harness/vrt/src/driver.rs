//! Shard driver: runs every corpus definition of this shard over its workload with the
//! monitors on, writes a JSON result and an observation-hash log (for cross-config joins).

use std::collections::HashMap;
use std::io::Write;

use vmon::graph::GraphData;
use vmon::rng::{fnv1a, fnv_mix, Rng};
use vmon::serde_json::{self, json, Value};
use vmon::spec::{hex, unhex, Def};

use crate::inputs;
use crate::monitor::{self, DefCtx, PartialStats, ReadStats, Violation};
use crate::{Entry, Opts, RunOut};

fn args_map(args: &[String]) -> HashMap<String, String> {
    let mut m = HashMap::new();
    let mut i = 0;
    while i < args.len() {
        if let Some(k) = args[i].strip_prefix("--") {
            if i + 1 < args.len() && !args[i + 1].starts_with("--") {
                m.insert(k.to_string(), args[i + 1].clone());
                i += 2;
                continue;
            }
            m.insert(k.to_string(), "true".to_string());
        }
        i += 1;
    }
    m
}

pub fn obs_hash(out: &RunOut) -> u64 {
    let mut h = 0xcbf29ce484222325u64;
    for it in &out.items {
        h = fnv_mix(h, it.ok as u64);
        h = fnv_mix(h, it.v as u64);
        h = fnv_mix(h, it.payload);
        h = fnv_mix(h, it.err);
        h = fnv_mix(h, it.start as u64);
        h = fnv_mix(h, it.end as u64);
    }
    h = fnv_mix(h, out.ended as u64);
    h = fnv_mix(h, out.end_span.0 as u64);
    h = fnv_mix(h, out.end_span.1 as u64);
    for e in &out.cb_log {
        h = fnv_mix(h, e.leaf as u64);
        h = fnv_mix(h, e.start as u64);
        h = fnv_mix(h, e.end as u64);
        h = fnv_mix(h, e.slice_hash);
        h = fnv_mix(h, e.bumped as u64);
    }
    h = fnv_mix(h, out.problems.len() as u64);
    if let Some(p) = &out.panicked {
        h = fnv_mix(h, fnv1a(p.as_bytes()));
    }
    h
}

/// Copy the input into an exactly-sized heap block (optionally behind `pre` junk bytes) so that
/// the byte after the source is the allocator's red zone / unallocated under ASan and Miri.
pub struct Block {
    data: Box<[u8]>,
    pre: usize,
}
impl Block {
    pub fn new(input: &[u8], pre: usize) -> Block {
        let mut v = Vec::with_capacity(pre + input.len());
        v.extend(std::iter::repeat(b'~').take(pre));
        v.extend_from_slice(input);
        Block { data: v.into_boxed_slice(), pre }
    }
    pub fn bytes(&self) -> &[u8] {
        &self.data[self.pre..]
    }
}

fn run_entry(e: &Entry, input: &[u8], pre: usize, opts: &Opts) -> RunOut {
    let block = Block::new(input, pre);
    (e.run)(block.bytes(), opts)
}

pub struct Acc {
    pub violations: Vec<Value>,
    pub per_key: HashMap<(String, &'static str), usize>,
    pub per_prop: HashMap<&'static str, usize>,
    pub total_violations: usize,
}

impl Acc {
    fn add(&mut self, def: &str, config: &str, mode: &str, input: &[u8], extra: Value, vs: Vec<Violation>) {
        for x in vs {
            self.total_violations += 1;
            let k = (format!("{}|{}", def, x.prop), x.rule);
            let c = self.per_key.entry(k).or_insert(0);
            *c += 1;
            // caps are per property, so that a flood of findings of one property cannot hide another's
            let pc = self.per_prop.entry(x.prop).or_insert(0);
            if *c > 2 || *pc > 120 {
                continue;
            }
            *pc += 1;
            self.violations.push(json!({
                "property": x.prop, "level": "R", "rule": x.rule, "detail": x.detail, "def": def, "config": config,
                "mode": mode, "input_hex": hex(input), "input_text": String::from_utf8_lossy(input), "extra": extra,
            }));
        }
    }
}

fn show_out(out: &RunOut) -> Value {
    json!({
        "items": out.items.iter().take(40).map(|i| if i.ok { format!("Ok(V{}) {}..{}", i.v, i.start, i.end) } else { format!("Err({}) {}..{}", i.err, i.start, i.end) }).collect::<Vec<_>>(),
        "ended": out.ended, "end_span": [out.end_span.0, out.end_span.1], "panicked": out.panicked,
    })
}

pub fn main(table: &[Entry]) {
    let args: Vec<String> = std::env::args().collect();
    let m = args_map(&args[1..]);
    let corpus_path = m.get("corpus").expect("--corpus");
    let mode = m.get("mode").cloned().unwrap_or_else(|| "stream".into());
    let seed: u64 = m.get("seed").map(|s| s.parse().unwrap()).unwrap_or(1);
    let thorough = m.get("tier").map(|t| t == "thorough").unwrap_or(false);
    let out_path = m.get("out").cloned();
    let obs_path = m.get("obslog").cloned();
    let only = m.get("only").cloned();
    let replay_input = m.get("input").map(|h| unhex(h));
    let case_index: Option<usize> = m.get("case-index").map(|s| s.parse().unwrap());
    let cap: usize = m.get("cap").map(|s| s.parse().unwrap()).unwrap_or(if thorough { 60_000 } else { 6_000 });
    let config = crate::config_name();

    // keep panics quiet: they are caught and reported as data
    std::panic::set_hook(Box::new(|_| {}));

    if mode == "bare" {
        bare(table, m.get("inputs").expect("--inputs"), config);
        return;
    }

    let corpus: Value = serde_json::from_str(&std::fs::read_to_string(corpus_path).expect("read corpus")).expect("parse corpus");
    let mut specs: HashMap<String, (Def, GraphData)> = HashMap::new();
    for d in corpus["defs"].as_array().unwrap() {
        let def = Def::from_json(&d["def"]);
        let g = GraphData::from_json(&d["graph"]);
        specs.insert(def.name.clone(), (def, g));
    }

    let mut acc = Acc { violations: vec![], per_key: HashMap::new(), per_prop: HashMap::new(), total_violations: 0 };
    let mut obs: Vec<u8> = vec![];
    let mut read_stats = ReadStats::default();
    let mut pstats = PartialStats::default();
    let mut samples: Vec<Value> = vec![];
    let mut inconclusive: Vec<Value> = vec![];
    let (mut cases, mut items_seen, mut err_items, mut runs_with_err, mut runs_with_skip, mut multibyte_runs, mut dropped, mut traced) = (0usize, 0usize, 0usize, 0usize, 0usize, 0usize, 0usize, 0usize);
    let (mut gd, mut mem, mut rnd, mut swp) = (0usize, 0usize, 0usize, 0usize);
    let mut long_inputs = 0usize;
    let (mut cb_invocations, mut runs_with_cb, mut cb_bumps) = (0usize, 0usize, 0usize);
    let mut distinct: std::collections::HashSet<u64> = Default::default();
    let mut defs_run = 0usize;
    let mut dump = String::new();

    for e in table {
        if let Some(o) = &only {
            if o != e.name {
                continue;
            }
        }
        let Some((def, g)) = specs.get(e.name) else {
            inconclusive.push(json!({"def": e.name, "reason": "not in corpus.json"}));
            continue;
        };
        let ctx = match DefCtx::new(def.clone(), g.clone()) {
            Ok(c) => c,
            Err(msg) => {
                inconclusive.push(json!({"def": e.name, "reason": format!("reference unavailable: {msg}")}));
                continue;
            }
        };
        defs_run += 1;
        let name_hash = fnv1a(e.name.as_bytes());
        let mut rng = Rng::derive(seed, name_hash);
        let set = if let Some(inp) = &replay_input {
            inputs::InputSet { inputs: vec![inp.clone()], dropped: 0, graph_directed: 0, members: 0, random: 0, sweeps: 0, long: 0 }
        } else {
            inputs::build(&ctx, &mut rng, thorough, cap)
        };
        dropped += set.dropped;
        gd += set.graph_directed;
        mem += set.members;
        rnd += set.random;
        swp += set.sweeps;
        long_inputs += set.long;

        match mode.as_str() {
            "stream" => {
                for (ci, input) in set.inputs.iter().enumerate() {
                    let trace = ci % 4 == 0 || replay_input.is_some();
                    let opts = Opts { partial: false, trace, budget: true, max_items: input.len() + 3 };
                    if let Some(k) = case_index {
                        // identify one case of the deterministic case order (used to turn a cross-config
                        // observation mismatch into a self-contained witness)
                        if cases != k {
                            cases += 1;
                            continue;
                        }
                    }
                    let out = run_entry(e, input, ci % 3, &opts);
                    if case_index.is_some() {
                        println!("CASE {}", json!({"def": e.name, "input_hex": hex(input), "input_text": String::from_utf8_lossy(input), "config": config, "observed": show_out(&out), "source": def.render()}));
                    }
                    cases += 1;
                    let oh = obs_hash(&out);
                    obs.extend_from_slice(&oh.to_le_bytes());
                    distinct.insert(fnv_mix(oh, fnv_mix(name_hash, fnv1a(input))));
                    items_seen += out.items.len();
                    cb_invocations += out.cb_log.len();
                    cb_bumps += out.cb_log.iter().filter(|c| c.bumped > 0).count();
                    if !out.cb_log.is_empty() {
                        runs_with_cb += 1;
                    }
                    let ne = out.items.iter().filter(|i| !i.ok).count();
                    err_items += ne;
                    if ne > 0 {
                        runs_with_err += 1;
                    }
                    if input.iter().any(|b| *b >= 0x80) {
                        multibyte_runs += 1;
                    }
                    let mut vs = vec![];
                    monitor::check_structure(&ctx, input, &out, &mut vs);
                    let rs = monitor::check_stream(&ctx, input, &out, &mut vs);
                    if let Some(rs) = &rs {
                        if !rs.skips.is_empty() {
                            runs_with_skip += 1;
                        }
                    }
                    if trace {
                        traced += 1;
                        monitor::check_reads(input.len(), &out, &mut vs, &mut read_stats);
                    }
                    // spanned() == manual iteration, on a sample
                    if ci % 16 == 0 && out.panicked.is_none() {
                        let block = Block::new(input, 0);
                        let sp = (e.spanned)(block.bytes(), input.len() + 3);
                        if sp != out.items {
                            vs.push(monitor::v("C14", "spanned-differs", "spanned() pairs differ from manual iteration".into()));
                        }
                    }
                    if replay_input.is_some() {
                        println!("REPLAY def={} config={} input={:?}\n  lexer: {}\n  reference: {:?}\n  events: {:?}", e.name, config, String::from_utf8_lossy(input), show_out(&out), rs.as_ref().map(|r| &r.items), out.events.iter().take(200).collect::<Vec<_>>());
                        for x in &vs {
                            println!("  VIOLATION-DETAIL property={} rule={} {}", x.prop, x.rule, x.detail);
                        }
                    }
                    if !vs.is_empty() {
                        acc.add(e.name, config, &mode, input, show_out(&out), vs);
                    } else if samples.len() < 6 && ci % 7 == 3 && out.items.len() >= 3 && out.items.iter().any(|i| i.ok) && (samples.len() % 2 == 0 || out.items.iter().any(|i| !i.ok)) {
                        samples.push(json!({"def": e.name, "source": def.render(), "input": String::from_utf8_lossy(input), "observed": show_out(&out)}));
                    }
                }
            }
            "partial" => {
                // a callback that bumps is a function of the remainder, which differs between a prefix and the whole
                // input: for such definitions the one-shot stream is not the yardstick of the partial lexer
                if def.pats.iter().any(|p| p.cb.as_ref().map(|c| c.bump).unwrap_or(false)) {
                    continue;
                }
                // C07: all split points of short inputs, sampled split points of longer ones
                let per_def = if thorough { 1500 } else { 220 };
                let mut chosen: Vec<&Vec<u8>> = set.inputs.iter().filter(|i| !i.is_empty() && i.len() <= 48).collect();
                if chosen.len() > per_def {
                    let step = chosen.len() as f64 / per_def as f64;
                    let mut k = 0f64;
                    let mut c2 = vec![];
                    while (k as usize) < chosen.len() {
                        c2.push(chosen[k as usize]);
                        k += step;
                    }
                    chosen = c2;
                }
                // plus a few long inputs (runs of 64..600 bytes), split points sampled
                let long: Vec<&Vec<u8>> = set.inputs.iter().filter(|i| i.len() >= 64 && i.len() <= 600).take(if thorough { 40 } else { 10 }).collect();
                let n_short = chosen.len();
                chosen.extend(long);
                for (ci, input) in chosen.into_iter().enumerate() {
                    let is_long = ci >= n_short;
                    let full_opts = Opts { partial: false, trace: false, budget: true, max_items: input.len() + 3 };
                    let full = run_entry(e, input, 0, &full_opts);
                    if full.panicked.is_some() || !full.ended {
                        continue;
                    }
                    let full_ref = monitor::ref_stream(&ctx, input, 0);
                    if full_ref.ambiguous || full_ref.empty_match {
                        continue;
                    }
                    for k in 0..=input.len() {
                        if ctx.utf8() && !vmon::utf8::is_boundary(input, k) {
                            continue;
                        }
                        if is_long && k % 7 != (ci % 7) && k + 3 < input.len() && k > 2 {
                            continue;
                        }
                        let popts = Opts { partial: true, trace: false, budget: true, max_items: k + 3 };
                        let part = run_entry(e, &input[..k], (ci + k) % 3, &popts);
                        cases += 1;
                        let oh = obs_hash(&part);
                        obs.extend_from_slice(&oh.to_le_bytes());
                        distinct.insert(fnv_mix(oh, fnv_mix(name_hash, fnv_mix(fnv1a(input), k as u64))));
                        let mut vs = vec![];
                        monitor::check_partial(&ctx, input, k, &full, &full_ref, &part, &mut vs, &mut pstats);
                        if replay_input.is_some() {
                            println!("REPLAY split={} partial: {} | full: {}", k, show_out(&part), show_out(&full));
                            for x in &vs {
                                println!("  VIOLATION-DETAIL property={} rule={} {}", x.prop, x.rule, x.detail);
                            }
                        }
                        if !vs.is_empty() {
                            acc.add(e.name, config, &mode, input, json!({"split": k, "partial": show_out(&part), "full": show_out(&full)}), vs);
                        } else if samples.len() < 6 && !part.items.is_empty() && part.items.len() < full.items.len() && k >= 3 && (ci + k) % 5 == 0 {
                            samples.push(json!({"def": e.name, "source": def.render(), "input": String::from_utf8_lossy(input), "split": k, "partial": show_out(&part), "full": show_out(&full)}));
                        }
                    }
                    // chunk schedules following the book's protocol
                    if ci % 3 == 0 {
                        let mut vs = vec![];
                        chunk_schedule(e, &ctx, input, &full, &mut rng, &mut vs);
                        pstats.chunk_schedules += 1;
                        if !vs.is_empty() {
                            acc.add(e.name, config, &mode, input, json!({"full": show_out(&full)}), vs);
                        }
                    }
                }
            }
            "twins" => {
                // C12: `e` is the str-mode definition, its twin (utf8 = false) is named <name>B
                if e.name.ends_with('B') {
                    continue;
                }
                let twin_name = format!("{}B", e.name);
                let Some(te) = table.iter().find(|t| t.name == twin_name) else {
                    inconclusive.push(json!({"def": e.name, "reason": "twin missing from table"}));
                    continue;
                };
                let Some((tdef, tg)) = specs.get(&twin_name) else { continue };
                let tctx = match DefCtx::new(tdef.clone(), tg.clone()) {
                    Ok(c) => c,
                    Err(msg) => {
                        inconclusive.push(json!({"def": twin_name, "reason": msg}));
                        continue;
                    }
                };
                for (ci, input) in set.inputs.iter().enumerate() {
                    let opts = Opts { partial: false, trace: false, budget: true, max_items: input.len() + 3 };
                    let a = run_entry(e, input, ci % 3, &opts);
                    let b = run_entry(te, input, ci % 3, &opts);
                    cases += 1;
                    let oh = obs_hash(&a);
                    obs.extend_from_slice(&oh.to_le_bytes());
                    distinct.insert(fnv_mix(oh, fnv_mix(name_hash, fnv1a(input))));
                    items_seen += a.items.len();
                    if input.iter().any(|x| *x >= 0x80) {
                        multibyte_runs += 1;
                    }
                    let mut vs = vec![];
                    if a.panicked.is_some() || b.panicked.is_some() {
                        vs.push(monitor::v("C12", "twin-panicked", format!("str: {:?} bytes: {:?}", a.panicked, b.panicked)));
                    } else {
                        let oka: Vec<_> = a.items.iter().filter(|i| i.ok).collect();
                        let okb: Vec<_> = b.items.iter().filter(|i| i.ok).collect();
                        if oka != okb {
                            vs.push(monitor::v("C12", "ok-tokens-differ", format!("str mode {} | utf8 = false {}", show_out(&a), show_out(&b))));
                        }
                        let cover = |o: &RunOut| {
                            let mut c = vec![false; input.len()];
                            for it in o.items.iter().filter(|i| !i.ok) {
                                for k in it.start..it.end.min(input.len()) {
                                    c[k] = true;
                                }
                            }
                            c
                        };
                        if cover(&a) != cover(&b) {
                            vs.push(monitor::v("C12", "error-coverage-differs", format!("str mode {} | utf8 = false {}", show_out(&a), show_out(&b))));
                        }
                        ne_acc(&a, &mut err_items, &mut runs_with_err);
                    }
                    if !vs.is_empty() {
                        acc.add(e.name, config, &mode, input, json!({"str": show_out(&a), "bytes": show_out(&b)}), vs);
                    } else if samples.len() < 6 && ci % 131 == 5 && !a.items.is_empty() {
                        samples.push(json!({"def": e.name, "source": def.render(), "input": String::from_utf8_lossy(input), "str_mode": show_out(&a), "byte_mode": show_out(&b)}));
                    }
                }
                // byte-mode twin on arbitrary (ill-formed) bytes against the reference
                let bset = inputs::build(&tctx, &mut rng, false, cap / 3);
                for (ci, input) in bset.inputs.iter().enumerate() {
                    if std::str::from_utf8(input).is_ok() {
                        continue;
                    }
                    let opts = Opts { partial: false, trace: false, budget: true, max_items: input.len() + 3 };
                    let b = run_entry(te, input, ci % 3, &opts);
                    cases += 1;
                    let oh = obs_hash(&b);
                    obs.extend_from_slice(&oh.to_le_bytes());
                    distinct.insert(fnv_mix(oh, fnv_mix(name_hash ^ 1, fnv1a(input))));
                    let mut vs0 = vec![];
                    monitor::check_structure(&tctx, input, &b, &mut vs0);
                    monitor::check_stream(&tctx, input, &b, &mut vs0);
                    let mut vs: Vec<Violation> = vs0.into_iter().map(|mut x| { x.prop = "C12"; x }).collect();
                    // every Ok item produced by a Unicode-aware leaf covers well-formed UTF-8
                    for it in b.items.iter().filter(|i| i.ok) {
                        let unicode_leaf = tdef.pats.iter().any(|p| p.kind != vmon::spec::PatKind::Skip && p.variant as u32 == it.v && !p.lit.bytes && !String::from_utf8_lossy(&p.lit.data).contains("(?-u") && !String::from_utf8_lossy(&p.lit.data).contains("-u:") && !String::from_utf8_lossy(&p.lit.data).contains("\\x"));
                        let all_unicode = tdef.pats.iter().filter(|p| p.kind != vmon::spec::PatKind::Skip && p.variant as u32 == it.v).count() == 1 && tdef.subpats.is_empty();
                        if unicode_leaf && all_unicode && it.end <= input.len() && std::str::from_utf8(&input[it.start..it.end]).is_err() {
                            vs.push(monitor::v("C12", "unicode-pattern-matched-invalid-utf8", format!("Ok(V{}) {}..{} covers ill-formed bytes", it.v, it.start, it.end)));
                        }
                    }
                    if !vs.is_empty() {
                        acc.add(&twin_name, config, &mode, input, show_out(&b), vs);
                    }
                }
            }
            "dump" => {
                // write a sample of this definition's inputs for oracle-free runs (Miri)
                let limit: usize = m.get("limit").map(|s| s.parse().unwrap()).unwrap_or(40);
                let step = (set.inputs.len() / limit.max(1)).max(1);
                let mut n = 0;
                for (ci, input) in set.inputs.iter().enumerate() {
                    if ci % step == 0 && n < limit {
                        dump.push_str(&format!("{}\t{}\n", e.name, hex(input)));
                        n += 1;
                    }
                }
                cases += n;
            }
            other => panic!("unknown mode {other}"),
        }
    }

    let result = json!({
        "config": config, "mode": mode, "seed": seed, "tier": if thorough { "thorough" } else { "quick" },
        "definitions": defs_run, "cases": cases, "distinct_cases": distinct.len(), "items": items_seen, "error_items": err_items,
        "runs_with_error": runs_with_err, "runs_with_skip": runs_with_skip, "runs_with_multibyte": multibyte_runs,
        "inputs": {"graph_directed": gd, "members_and_mutations": mem, "alphabet_random": rnd, "length_sweeps": swp, "long_100_to_1500_bytes": long_inputs, "dropped_invalid_utf8": dropped},
        "traced_runs": traced, "callback_invocations": cb_invocations, "runs_with_callbacks": runs_with_cb, "callback_bumps": cb_bumps,
        "read_trace": {"read_events": read_stats.events, "attempts": read_stats.attempts, "restarts": read_stats.restarts, "max_reads_per_examined_byte": read_stats.max_ratio},
        "partial": {"splits": pstats.splits, "stopped_mid_stream": pstats.stopped_mid_stream, "determinedness_inconclusive": pstats.inconclusive, "chunk_schedules": pstats.chunk_schedules, "callback_prefix_checks": pstats.callback_prefix_checks},
        "violation_count": acc.total_violations, "violations": acc.violations, "inconclusive": inconclusive, "samples": samples,
    });
    if mode == "dump" {
        std::fs::write(m.get("inputs").expect("--inputs"), &dump).expect("write inputs");
    }
    let text = serde_json::to_string(&result).unwrap();
    match out_path {
        Some(p) => std::fs::write(p, text).expect("write result"),
        None => println!("{text}"),
    }
    if let Some(p) = obs_path {
        let mut f = std::fs::File::create(p).expect("obslog");
        f.write_all(&obs).unwrap();
    }
}

fn ne_acc(o: &RunOut, err_items: &mut usize, runs_with_err: &mut usize) {
    let ne = o.items.iter().filter(|i| !i.ok).count();
    *err_items += ne;
    if ne > 0 {
        *runs_with_err += 1;
    }
}

/// Feed the input in random chunks: partial lexer on the buffered data, on None keep the
/// unconsumed tail, finish with an ordinary lexer (book/src/partial.md protocol). The
/// concatenated stream must equal the one-shot stream.
fn chunk_schedule(e: &Entry, ctx: &DefCtx, input: &[u8], full: &RunOut, rng: &mut Rng, vs: &mut Vec<Violation>) {
    let mut got: Vec<crate::Item> = vec![];
    let mut base = 0usize; // offset of the buffer start in the input
    let mut fed = 0usize; // bytes fed so far
    let mut schedule = vec![];
    let mut guard = 0;
    while fed < input.len() {
        guard += 1;
        if guard > input.len() + 4 {
            break;
        }
        let mut next = (fed + rng.range(1, 7)).min(input.len());
        if ctx.utf8() {
            while next < input.len() && !vmon::utf8::is_boundary(input, next) {
                next += 1;
            }
        }
        fed = next;
        schedule.push(fed);
        if fed == input.len() {
            break;
        }
        let buf = &input[base..fed];
        let part = run_entry(e, buf, 0, &Opts { partial: true, trace: false, budget: true, max_items: buf.len() + 3 });
        if part.panicked.is_some() || !part.ended {
            vs.push(monitor::v("C07", "chunked-partial-failed", format!("schedule {schedule:?}: partial lexer panicked or never returned None")));
            return;
        }
        for it in &part.items {
            let mut it = it.clone();
            it.start += base;
            it.end += base;
            got.push(it);
        }
        let (ps, pe) = part.end_span;
        if ps != pe || ps > buf.len() {
            vs.push(monitor::v("C07", "chunked-span-at-none", format!("schedule {schedule:?}: span at None {ps}..{pe}")));
            return;
        }
        base += ps;
    }
    let rest = &input[base..];
    let fin = run_entry(e, rest, 0, &Opts { partial: false, trace: false, budget: true, max_items: rest.len() + 3 });
    for it in &fin.items {
        let mut it = it.clone();
        it.start += base;
        it.end += base;
        got.push(it);
    }
    // error codes produced by an error callback embed buffer-relative spans; compare shape for those
    let same = got.len() == full.items.len()
        && got.iter().zip(&full.items).all(|(a, b)| a.ok == b.ok && a.v == b.v && a.payload == b.payload && a.start == b.start && a.end == b.end);
    if !same {
        vs.push(monitor::v("C07", "chunked-stream-differs", format!("schedule {schedule:?}: chunked feeding gives {} items, one-shot lexing {} (first items chunked {:?} / one-shot {:?})", got.len(), full.items.len(), got.iter().take(6).collect::<Vec<_>>(), full.items.iter().take(6).collect::<Vec<_>>())));
    }
}

/// Oracle-free run over pre-computed inputs (used under Miri): only what the typed runner itself
/// checks (span validity and boundaries before slicing, slice/remainder equality, termination by
/// read budget, None forever after None, final position).
fn bare(table: &[Entry], inputs_path: &str, config: &str) {
    let text = std::fs::read_to_string(inputs_path).expect("read inputs");
    let (mut cases, mut items, mut viol) = (0usize, 0usize, 0usize);
    for line in text.lines() {
        let Some((name, hexs)) = line.split_once('\t') else { continue };
        let Some(e) = table.iter().find(|e| e.name == name) else { continue };
        let input = unhex(hexs);
        for partial in [false, true] {
            let opts = Opts { partial, trace: false, budget: true, max_items: input.len() + 3 };
            let out = run_entry(e, &input, cases % 3, &opts);
            cases += 1;
            items += out.items.len();
            let mut bad: Vec<String> = out.problems.iter().map(|(p, m)| format!("{p}: {m}")).collect();
            if let Some(p) = &out.panicked {
                bad.push(format!("C05: panic {p}"));
            }
            if !out.ended {
                bad.push("C03: no None".into());
            }
            if !partial && out.ended && out.end_span != (input.len(), input.len()) {
                bad.push(format!("C03: end span {:?}", out.end_span));
            }
            let mut prev = 0;
            for it in &out.items {
                if it.start >= it.end || it.start < prev || it.end > input.len() {
                    bad.push(format!("C03: item span {}..{}", it.start, it.end));
                }
                prev = it.end;
            }
            for b in bad {
                viol += 1;
                println!("BARE-VIOLATION def={} config={} partial={} input={} {}", name, config, partial, hexs, b);
            }
        }
    }
    println!("BARE-SUMMARY config={} cases={} items={} violations={}", config, cases, items, viol);
}
