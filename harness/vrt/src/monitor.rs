//! Monitors: reference stream, stream comparison, structural (C03), read-trace (C20),
//! partial-lexing determinedness (C07), callback table (C13).

use vmon::graph::{interp_attempt, Dense, GAttempt, GraphData};
use vmon::refa::{Attempt, CState, Reference, EOI};
use vmon::spec::{CbRet, Def, ErrKind, PatKind, VarKind};
use vmon::utf8;

use crate::{bump_amount, decision_hash, err_cb_code, err_fromcb_code, CbEvent, Item, RunOut, ERR_DEFAULT};

pub struct DefCtx {
    pub def: Def,
    pub graph: GraphData,
    pub dense: Dense,
    pub reference: Reference,
    pub prio: Vec<usize>,
    pub has_look: bool,
}

#[derive(Debug, Clone)]
pub struct Violation {
    pub prop: &'static str,
    pub rule: &'static str,
    pub detail: String,
}

pub fn v(prop: &'static str, rule: &'static str, detail: String) -> Violation {
    Violation { prop, rule, detail }
}

impl DefCtx {
    pub fn new(def: Def, graph: GraphData) -> Result<DefCtx, String> {
        let reference = Reference::build(&def).map_err(|e| format!("{e:?}"))?;
        let prio = graph.priorities();
        if prio.len() != def.pats.len() {
            return Err("leaf count mismatch".into());
        }
        let dense = graph.dense();
        let has_look = def.has_look();
        Ok(DefCtx { def, graph, dense, reference, prio, has_look })
    }

    pub fn utf8(&self) -> bool {
        self.def.utf8
    }
}

#[derive(Debug, Clone, Default)]
pub struct RefStream {
    pub items: Vec<Item>,
    /// skipped regions (start, end, leaf)
    pub skips: Vec<(usize, usize, usize)>,
    pub cb_log: Vec<CbEvent>,
    /// highest index examined + 1 per attempt start (for the read-count bound)
    pub ambiguous: bool,
    pub empty_match: bool,
}

enum Outcome {
    Emit { v: u32, payload: u64 },
    DefaultError,
    Error(u64),
    Skip,
}

/// What the documented callback table prescribes for leaf `leaf` matching `text` (C13 oracle;
/// written independently of the rendered callback bodies).
fn expected_outcome(def: &Def, leaf: usize, h: u64, text: &[u8]) -> Outcome {
    let p = &def.pats[leaf];
    let own = p.variant as u32;
    let err = if def.error == ErrKind::Unit { ERR_DEFAULT } else { err_cb_code(leaf) };
    match &p.cb {
        None => {
            if p.kind == PatKind::Skip {
                return Outcome::Skip;
            }
            match def.variants[p.variant] {
                VarKind::Slice => Outcome::Emit { v: own, payload: vmon::rng::fnv1a(text) },
                _ => Outcome::Emit { v: own, payload: 0 },
            }
        }
        Some(cb) => match cb.ret {
            CbRet::Unit => Outcome::Emit { v: own, payload: 0 },
            CbRet::Bool => if h % 2 == 0 { Outcome::Emit { v: own, payload: 0 } } else { Outcome::DefaultError },
            CbRet::Val => Outcome::Emit { v: own, payload: h },
            CbRet::OptVal => if h % 3 == 0 { Outcome::DefaultError } else { Outcome::Emit { v: own, payload: h } },
            // an explicit `Err(Default::default())` stays that value, also when an error callback is configured
            CbRet::ResVal => if h % 3 == 0 { Outcome::Error(if h % 7 == 0 { ERR_DEFAULT } else { err }) } else { Outcome::Emit { v: own, payload: h } },
            CbRet::SkipAlways | CbRet::SkSkip | CbRet::SkUnit => Outcome::Skip,
            CbRet::ResSkip | CbRet::SkResSkip => if h % 2 == 0 { Outcome::Error(if h % 7 == 0 { ERR_DEFAULT } else { err }) } else { Outcome::Skip },
            CbRet::SkResUnit => if h % 2 == 0 { Outcome::Error(err) } else { Outcome::Skip },
            CbRet::FilterVal => if h % 2 == 0 { Outcome::Emit { v: own, payload: h } } else { Outcome::Skip },
            CbRet::FilterResVal => match h % 3 { 0 => Outcome::Emit { v: own, payload: h }, 1 => Outcome::Skip, _ => Outcome::Error(err) },
            CbRet::FilterUnit => if h % 2 == 0 { Outcome::Emit { v: own, payload: 0 } } else { Outcome::Skip },
            CbRet::Tok => Outcome::Emit { v: cb.target as u32, payload: 0 },
            CbRet::ResTok => if h % 3 == 0 { Outcome::Error(if h % 7 == 0 { ERR_DEFAULT } else { err }) } else { Outcome::Emit { v: cb.target as u32, payload: 0 } },
            CbRet::FilterTok => if h % 2 == 0 { Outcome::Emit { v: cb.target as u32, payload: 0 } } else { Outcome::Skip },
            CbRet::FilterResTok => match h % 3 { 0 => Outcome::Emit { v: cb.target as u32, payload: 0 }, 1 => Outcome::Skip, _ => Outcome::Error(err) },
        },
    }
}

/// Reference lexing of the whole source (ordinary, non-partial mode), from position `from`.
pub fn ref_stream(ctx: &DefCtx, src: &[u8], from: usize) -> RefStream {
    let mut rs = RefStream::default();
    let def = &ctx.def;
    let mut pos = from;
    while pos < src.len() {
        match ctx.reference.attempt(src, pos, &ctx.prio) {
            Attempt::Match { end, leaves, .. } => {
                if leaves.len() != 1 {
                    rs.ambiguous = true;
                    return rs;
                }
                if end <= pos {
                    rs.empty_match = true;
                    return rs;
                }
                let leaf = leaves[0];
                let p = &def.pats[leaf];
                let text = &src[pos..end];
                let mut item_end = end;
                let mut h = 0;
                if let Some(cb) = &p.cb {
                    if cb.salt == vmon::spec::BUILTIN_SKIP {
                        // logos::skip: no recording callback runs, the match is simply skipped
                        rs.skips.push((pos, end, leaf));
                        pos = end;
                        continue;
                    }
                    h = decision_hash(cb.salt, text);
                    let mut bumped = 0;
                    if cb.bump {
                        bumped = bump_amount(h, &src[end..], def.utf8);
                    }
                    rs.cb_log.push(CbEvent { leaf: leaf as u32, start: pos, end, slice_hash: vmon::rng::fnv1a(text), h, bumped });
                    item_end = end + bumped;
                }
                match expected_outcome(def, leaf, h, text) {
                    Outcome::Emit { v, payload } => rs.items.push(Item { ok: true, v, payload, err: 0, start: pos, end: item_end }),
                    Outcome::DefaultError => {
                        let code = if matches!(def.error, ErrKind::CustomCb | ErrKind::CustomCbInline) { err_fromcb_code(pos, item_end) } else { ERR_DEFAULT };
                        rs.items.push(Item { ok: false, v: 0, payload: 0, err: code, start: pos, end: item_end })
                    }
                    Outcome::Error(code) => rs.items.push(Item { ok: false, v: 0, payload: 0, err: code, start: pos, end: item_end }),
                    Outcome::Skip => rs.skips.push((pos, item_end, leaf)),
                }
                pos = item_end;
            }
            Attempt::Error { end, .. } => {
                let code = if matches!(def.error, ErrKind::CustomCb | ErrKind::CustomCbInline) { err_fromcb_code(pos, end) } else { ERR_DEFAULT };
                rs.items.push(Item { ok: false, v: 0, payload: 0, err: code, start: pos, end });
                pos = end;
            }
        }
    }
    rs
}

/// Graph-interpreted stream (no callbacks): items + skips.
pub fn interp_stream(ctx: &DefCtx, src: &[u8]) -> Result<(Vec<Item>, Vec<(usize, usize, usize)>), &'static str> {
    let mut items = vec![];
    let mut skips = vec![];
    let mut pos = 0;
    let mut guard = 0;
    loop {
        guard += 1;
        if guard > src.len() + 4 {
            return Err("interpreter did not terminate");
        }
        match interp_attempt(&ctx.graph, &ctx.dense, src, pos, false) {
            GAttempt::End => break,
            GAttempt::NeedMore => return Err("NeedMore in ordinary mode"),
            GAttempt::Broken(m) => return Err(m),
            GAttempt::Error { end } => {
                items.push(Item { ok: false, v: 0, payload: 0, err: ERR_DEFAULT, start: pos, end });
                pos = end;
            }
            GAttempt::Match { leaf, end } => {
                if end <= pos {
                    return Err("interpreter produced an empty match");
                }
                let p = &ctx.def.pats[leaf];
                if p.kind == PatKind::Skip {
                    skips.push((pos, end, leaf));
                } else {
                    let payload = if ctx.def.variants[p.variant] == VarKind::Slice { vmon::rng::fnv1a(&src[pos..end]) } else { 0 };
                    items.push(Item { ok: true, v: p.variant as u32, payload, err: 0, start: pos, end });
                }
                pos = end;
            }
        }
    }
    Ok((items, skips))
}

fn show_items(items: &[Item]) -> String {
    let mut s = String::new();
    for (i, it) in items.iter().enumerate() {
        if i >= 12 {
            s.push_str(" ...");
            break;
        }
        if it.ok {
            s.push_str(&format!(" Ok(V{}){}..{}", it.v, it.start, it.end));
        } else {
            s.push_str(&format!(" Err({}){}..{}", it.err, it.start, it.end));
        }
    }
    s
}

/// Structural monitor (C03) on an ordinary run, plus panics.
pub fn check_structure(ctx: &DefCtx, src: &[u8], out: &RunOut, vs: &mut Vec<Violation>) {
    let len = src.len();
    if let Some(p) = &out.panicked {
        if p.contains(logos::verif::BUDGET_PANIC) {
            vs.push(v("C03", "read-budget-exceeded", format!("one match attempt performed more than {} reads (non-termination)", 4 * (len + 2) + 16)));
            vs.push(v("C20", "read-budget-exceeded", format!("one match attempt performed more than {} reads", 4 * (len + 2) + 16)));
        } else {
            vs.push(v("C05", "panic-while-lexing", format!("lexer panicked: {}", p.chars().take(200).collect::<String>())));
        }
        return;
    }
    for (prop, msg) in &out.problems {
        let prop: &'static str = prop;
        vs.push(v(prop, "accessor-or-span", msg.clone()));
    }
    if !out.ended {
        vs.push(v("C03", "too-many-items", format!("{} items from a source of {} bytes without reaching None", out.items.len(), len)));
        return;
    }
    let mut prev_end = 0usize;
    for it in &out.items {
        if it.start >= it.end {
            vs.push(v("C03", "empty-span", format!("item with span {}..{}", it.start, it.end)));
        }
        if it.start < prev_end {
            vs.push(v("C03", "overlap", format!("item {}..{} starts before the previous end {}", it.start, it.end, prev_end)));
        }
        // the gap prev_end..it.start must be tiled by skip matches
        if it.start > prev_end && !gap_is_skips(ctx, src, prev_end, it.start) {
            vs.push(v("C03", "gap-not-skips", format!("gap {}..{} between items is not a sequence of skip matches", prev_end, it.start)));
        }
        prev_end = prev_end.max(it.end);
    }
    if out.end_span != (len, len) {
        vs.push(v("C03", "end-position", format!("span after None is {:?}, source length {}", out.end_span, len)));
    } else if prev_end < len && !gap_is_skips(ctx, src, prev_end, len) {
        vs.push(v("C03", "tail-not-skips", format!("tail {}..{} after the last item is not a sequence of skip matches", prev_end, len)));
    }
    if !out.post_none_ok {
        vs.push(v("C03", "some-after-none", "next() after None returned Some or moved the span".into()));
    }
}

fn gap_is_skips(ctx: &DefCtx, src: &[u8], from: usize, to: usize) -> bool {
    if ctx.def.has_callbacks() {
        // skip decisions of callbacks are checked by the stream comparison
        return true;
    }
    let mut pos = from;
    while pos < to {
        match ctx.reference.attempt(src, pos, &ctx.prio) {
            Attempt::Match { end, leaves, .. } if leaves.len() == 1 && ctx.def.pats[leaves[0]].kind == PatKind::Skip && end > pos && end <= to => pos = end,
            _ => return false,
        }
    }
    true
}

/// Compare the compiled lexer's stream with the reference stream (C01 / C02 / C13) and with the
/// graph interpreter.
pub fn check_stream(ctx: &DefCtx, src: &[u8], out: &RunOut, vs: &mut Vec<Violation>) -> Option<RefStream> {
    if let Some(p) = &out.panicked {
        if ctx.def.has_callbacks() && !p.contains(logos::verif::BUDGET_PANIC) {
            // callbacks only do what the table allows (in-range bumps): a panic is a C13 matter too
            vs.push(v("C13", "panic-in-run-with-callbacks", format!("lexer or callback panicked: {}", p.chars().take(200).collect::<String>())));
        }
        return None;
    }
    let rs = ref_stream(ctx, src, 0);
    if rs.ambiguous || rs.empty_match {
        return None;
    }
    let has_cb = ctx.def.has_callbacks();
    if out.items != rs.items {
        // first difference decides the tag
        let n = out.items.len().min(rs.items.len());
        let mut k = 0;
        while k < n && out.items[k] == rs.items[k] {
            k += 1;
        }
        let a = out.items.get(k);
        let b = rs.items.get(k);
        let err_involved = a.map(|x| !x.ok).unwrap_or(false) || b.map(|x| !x.ok).unwrap_or(false);
        let detail = format!("item #{k}: lexer{} | reference{}", show_items(&out.items[k.min(out.items.len())..]), show_items(&rs.items[k.min(rs.items.len())..]));
        if has_cb {
            vs.push(v("C13", "stream-differs", detail.clone()));
        }
        if err_involved {
            vs.push(v("C02", "error-item-differs", detail));
        } else {
            vs.push(v("C01", "token-differs", detail));
        }
    }
    if has_cb && out.cb_log != rs.cb_log {
        let n = out.cb_log.len().min(rs.cb_log.len());
        let mut k = 0;
        while k < n && out.cb_log[k] == rs.cb_log[k] {
            k += 1;
        }
        vs.push(v("C13", "callback-log-differs", format!("invocation #{k}: lexer {:?} | reference {:?} (lexer {} invocations, reference {})", out.cb_log.get(k), rs.cb_log.get(k), out.cb_log.len(), rs.cb_log.len())));
    }
    if !has_cb {
        match interp_stream(ctx, src) {
            Ok((items, _)) => {
                // error values are not modelled by the interpreter: compare shape only
                let same = items.len() == out.items.len()
                    && items.iter().zip(&out.items).all(|(a, b)| a.ok == b.ok && a.start == b.start && a.end == b.end && (!a.ok || (a.v == b.v && a.payload == b.payload)));
                if !same {
                    let detail = format!("lexer{} | captured graph executed by the interpreter{}", show_items(&out.items), show_items(&items));
                    vs.push(v("C01", "compiled-code-differs-from-graph", detail));
                }
            }
            Err(m) => vs.push(v("C03", "graph-interpreter", format!("captured graph cannot be executed: {m}"))),
        }
    }
    Some(rs)
}

/// Read-trace monitor (C20).
pub fn check_reads(src_len: usize, out: &RunOut, vs: &mut Vec<Violation>, stats: &mut ReadStats) {
    use logos::verif::Event;
    if out.panicked.is_some() {
        return;
    }
    let mut attempt_start: Option<usize> = None;
    let mut last_off = 0usize;
    let mut first = true;
    let mut reads = 0usize;
    let mut max_off = 0usize;
    let flush = |start: Option<usize>, reads: usize, max_off: usize, vs: &mut Vec<Violation>, stats: &mut ReadStats| {
        if let Some(s) = start {
            let examined = max_off.saturating_sub(s);
            stats.attempts += 1;
            stats.reads += reads;
            if examined > 0 {
                let ratio = reads as f64 / examined as f64;
                if examined >= 8 && ratio > stats.max_ratio {
                    stats.max_ratio = ratio;
                }
            }
            if reads > 4 * (examined + 2) + 16 {
                vs.push(v("C20", "too-many-reads", format!("attempt at {s}: {reads} reads for {examined} bytes examined")));
            }
        }
    };
    for ev in &out.events {
        match *ev {
            Event::Next { pos } | Event::Restart { pos } => {
                flush(attempt_start, reads, max_off, vs, stats);
                if matches!(ev, Event::Restart { .. }) {
                    stats.restarts += 1;
                }
                attempt_start = Some(pos);
                first = true;
                reads = 0;
                max_off = pos;
                last_off = pos;
            }
            Event::Read { offset, size, len } => {
                stats.events += 1;
                if len != src_len {
                    vs.push(v("C20", "foreign-source", format!("read against a source of length {len}, expected {src_len}")));
                }
                if let Some(s) = attempt_start {
                    if first && offset != s {
                        vs.push(v("C20", "attempt-does-not-start-at-item-end", format!("first read of the attempt at offset {offset}, previous item ended at {s}")));
                    }
                    if offset < last_off {
                        vs.push(v("C20", "read-offset-decreased", format!("read at offset {offset} after a read at {last_off} within one attempt (start {s})")));
                    }
                }
                first = false;
                last_off = offset;
                reads += 1;
                max_off = max_off.max((offset + size).min(src_len + 1));
            }
        }
    }
    flush(attempt_start, reads, max_off, vs, stats);
}

#[derive(Debug, Clone, Default)]
pub struct ReadStats {
    pub events: usize,
    pub attempts: usize,
    pub restarts: usize,
    pub reads: usize,
    pub max_ratio: f64,
}

// ------------------------------------------------------------------------------------------------
// C07: determinedness

/// Is next unit `x` feasible after the valid-UTF-8 prefix with automaton state `u8s`?
fn feasible(utf8mode: bool, u8s: u8, unit: usize) -> bool {
    if !utf8mode {
        return true;
    }
    if unit == EOI {
        u8s == utf8::U_START
    } else {
        utf8::step(u8s, unit as u8) != utf8::U_ERR
    }
}

/// Number of leading items (tokens and errors; skips are transparent) of the one-shot lexing that
/// are *determined* by prefix `p` alone, whatever follows. Also returns the position after the
/// last determined item-or-skip.
pub fn n_determined(ctx: &DefCtx, p: &[u8]) -> Option<(usize, usize)> {
    let reference = &ctx.reference;
    let prio = &ctx.prio;
    let mut count = 0usize;
    let mut pos = 0usize;
    let mut tmp: Vec<CState> = vec![];
    loop {
        // run the attempt at `pos` over the prefix only
        let mut r = reference.start();
        let mut best: Option<(usize, usize)> = None; // (end, leaf)
        let mut j = pos;
        let mut died_inside = false;
        while j < p.len() {
            reference.step(&r, p[j] as usize, &mut tmp);
            std::mem::swap(&mut r, &mut tmp);
            match reference.winner(&r, prio) {
                Ok(Some(l)) => best = Some((j, l)),
                Ok(None) => {}
                Err(_) => return None,
            }
            if !reference.crp(&r) {
                died_inside = true;
                break;
            }
            j += 1;
        }
        let determined_item: Option<(usize, Option<usize>)>; // (end, leaf or error)
        if died_inside {
            determined_item = Some(match best {
                Some((end, l)) => (end, Some(l)),
                None => {
                    let mut e = j.max(pos + 1);
                    if ctx.utf8() {
                        e = utf8::round_up(p, e);
                    }
                    (e, None)
                }
            });
        } else {
            // consumed all of the prefix; r is the tuple after it
            if pos >= p.len() {
                return Some((count, pos));
            }
            let u8s = if ctx.utf8() { utf8::state_after(&p[pos..]) } else { utf8::U_START };
            // (a) no feasible next byte keeps a longer match possible
            let mut longer = false;
            let mut w_all: Option<Option<usize>> = None;
            let mut w_same = true;
            for unit in 0..=256usize {
                if !feasible(ctx.utf8(), u8s, unit) {
                    continue;
                }
                reference.step(&r, unit, &mut tmp);
                if unit != EOI && reference.crp(&tmp) {
                    longer = true;
                    break;
                }
                let w = match reference.winner(&tmp, prio) {
                    Ok(w) => w,
                    Err(_) => return None,
                };
                match &w_all {
                    None => w_all = Some(w),
                    Some(prev) => {
                        if *prev != w {
                            w_same = false;
                        }
                    }
                }
            }
            if longer || !w_same {
                return Some((count, pos));
            }
            let w = w_all.flatten();
            determined_item = Some(match (w, best) {
                (Some(l), _) => (p.len(), Some(l)),
                (None, Some((end, l))) => (end, Some(l)),
                (None, None) => {
                    // error whose end is max(|P|, pos+1) rounded up: determined only if that lies within P
                    let e = p.len().max(pos + 1);
                    if e > p.len() || (ctx.utf8() && !utf8::is_boundary(p, e)) {
                        return Some((count, pos));
                    }
                    (e, None)
                }
            });
        }
        let (end, leaf) = determined_item.unwrap();
        if end <= pos {
            return None;
        }
        match leaf {
            Some(l) if ctx.def.pats[l].kind == PatKind::Skip => {}
            _ => count += 1,
        }
        pos = end;
    }
}

/// C07 monitor for one (input, split): `full` = items of the one-shot lexing of S (compiled),
/// `part` = run of the partial lexer over S[..k].
pub fn check_partial(ctx: &DefCtx, s: &[u8], k: usize, full: &RunOut, full_ref: &RefStream, part: &RunOut, vs: &mut Vec<Violation>, stats: &mut PartialStats) {
    if part.panicked.is_some() || full.panicked.is_some() {
        if let Some(p) = &part.panicked {
            vs.push(v("C07", "partial-lexer-panicked", p.chars().take(200).collect()));
        }
        return;
    }
    for (prop, msg) in &part.problems {
        let _ = prop;
        vs.push(v("C07", "partial-accessor-or-span", msg.clone()));
    }
    if !part.ended {
        vs.push(v("C07", "partial-never-none", format!("partial lexer over {} bytes yielded {} items without None", k, part.items.len())));
        return;
    }
    stats.splits += 1;
    if !part.post_none_ok {
        vs.push(v("C07", "repoll-after-none", format!("split {k}: polling the partial lexer again after None (no new input) returned an item or moved the span")));
        vs.push(v("C20", "repoll-after-none", format!("split {k}: after None the partial lexer did not restart at the end of the item produced last")));
    }
    let n_p = part.items.len();
    // (1) leading run of the one-shot items
    let lead_ok = n_p <= full.items.len() && part.items[..] == full.items[..n_p];
    if !lead_ok {
        vs.push(v("C07", "committed-item-changes", format!("split {k}: partial lexer yielded{} but the one-shot lexing of the whole input is{}", show_items(&part.items), show_items(&full.items))));
        return;
    }
    // (2) empty span at None, at a position from which lexing S reproduces the rest
    let (ps, pe) = part.end_span;
    if ps != pe {
        vs.push(v("C07", "non-empty-span-at-none", format!("split {k}: span at None is {ps}..{pe}")));
    } else {
        let lo = if n_p == 0 { 0 } else { full.items[n_p - 1].end };
        let hi = if n_p < full.items.len() { full.items[n_p].start } else { s.len() };
        let mut boundary = ps == lo || ps == hi;
        if !boundary {
            boundary = full_ref.skips.iter().any(|(a, b, _)| *a == ps || *b == ps);
        }
        if ps < lo || ps > hi || !boundary || ps > k {
            vs.push(v("C07", "resume-position", format!("split {k}: position at None is {ps}; the remaining one-shot items start at {hi} (previous item ended at {lo}) and {ps} is not an item/skip boundary of the one-shot lexing")));
        }
    }
    if n_p < full.items.len() || ps < k {
        stats.stopped_mid_stream += 1;
    }
    // (2b) callbacks: the invocations seen by the partial lexer are a leading run of the one-shot lexer's invocations
    // (same leaf, span, slice, decision; each once) - in particular no callback runs for a match that is still pending
    // when the buffer ends. Only judged when no callback of the definition bumps (a bump is a function of the remainder,
    // which legitimately differs between the prefix and the whole input).
    if ctx.def.has_callbacks() && !ctx.def.pats.iter().any(|p| p.cb.as_ref().map(|c| c.bump).unwrap_or(false)) {
        let n = part.cb_log.len();
        if n > full.cb_log.len() || part.cb_log[..] != full.cb_log[..n] {
            let j = (0..n.min(full.cb_log.len())).find(|&j| part.cb_log[j] != full.cb_log[j]).unwrap_or(n.min(full.cb_log.len()));
            vs.push(v("C07", "partial-callback-log-not-a-prefix", format!("split {k}: invocation #{j} of the partial lexer is {:?}, the one-shot lexer's is {:?} (partial {} invocations, one-shot {})", part.cb_log.get(j), full.cb_log.get(j), n, full.cb_log.len())));
            vs.push(v("C13", "partial-callback-log-not-a-prefix", format!("split {k}: a callback ran for a match the partial lexer did not commit, or ran twice: invocation #{j}: {:?} vs {:?}", part.cb_log.get(j), full.cb_log.get(j))));
        } else {
            stats.callback_prefix_checks += 1;
        }
    }
    // (3) eagerness / no over-commitment, closed over all continuations by the reference
    if ctx.def.has_callbacks() {
        return;
    }
    let p = &s[..k];
    match n_determined(ctx, p) {
        None => stats.inconclusive += 1,
        Some((n_det, _)) => {
            if !ctx.has_look {
                if n_p != n_det {
                    vs.push(v("C07", if n_p < n_det { "not-eager" } else { "over-commit" }, format!("split {k}: partial lexer yielded {n_p} items, {n_det} are determined by the prefix (whatever follows)")));
                }
            } else {
                let shorter = if k == 0 { 0 } else {
                    // last byte removed (to a char boundary in str mode)
                    let mut kk = k - 1;
                    if ctx.utf8() {
                        while kk > 0 && !utf8::is_boundary(p, kk) {
                            kk -= 1;
                        }
                    }
                    n_determined(ctx, &p[..kk]).map(|x| x.0).unwrap_or(0)
                };
                if n_p > n_det {
                    vs.push(v("C07", "over-commit", format!("split {k}: partial lexer yielded {n_p} items, only {n_det} are determined by the prefix")));
                }
                if n_p < shorter {
                    vs.push(v("C07", "not-eager", format!("split {k}: partial lexer yielded {n_p} items, {shorter} were already determined one byte earlier")));
                }
            }
        }
    }
}

#[derive(Debug, Clone, Default)]
pub struct PartialStats {
    pub callback_prefix_checks: usize,
    pub splits: usize,
    pub stopped_mid_stream: usize,
    pub inconclusive: usize,
    pub chunk_schedules: usize,
}
