//! vrt: runtime side of the R-level harness. Generic runners that execute the real compiled
//! lexers and record what they observably do; everything else (oracles, monitors, workloads)
//! is non-generic code working on those records.

pub mod driver;
pub mod inputs;
pub mod monitor;

use std::panic::{catch_unwind, AssertUnwindSafe};

pub use logos;
use logos::{Lexer, Logos};

pub mod prelude {
    pub use crate::{VErr, VExtras};
    pub use logos::{Filter, FilterResult, Lexer, Logos, Skip};
}

/// Custom error type used by generated definitions.
#[derive(Debug, Clone, PartialEq, Default)]
pub enum VErr {
    #[default]
    Default,
    /// returned by the pattern callback of leaf n
    Cb(usize),
    /// produced by the error callback for the given span
    FromCb(usize, usize),
}

pub trait VErrCode {
    fn code(&self) -> u64;
}
impl VErrCode for () {
    fn code(&self) -> u64 {
        ERR_DEFAULT
    }
}
pub const ERR_DEFAULT: u64 = 1;
pub fn err_cb_code(leaf: usize) -> u64 {
    1000 + leaf as u64
}
pub fn err_fromcb_code(start: usize, end: usize) -> u64 {
    (1u64 << 40) | ((start as u64) << 20) | end as u64
}
impl VErrCode for VErr {
    fn code(&self) -> u64 {
        match self {
            VErr::Default => ERR_DEFAULT,
            VErr::Cb(l) => err_cb_code(*l),
            VErr::FromCb(s, e) => err_fromcb_code(*s, *e),
        }
    }
}

/// One callback invocation as logged by the callback itself.
#[derive(Debug, Clone, PartialEq, Eq)]
pub struct CbEvent {
    pub leaf: u32,
    pub start: usize,
    pub end: usize,
    pub slice_hash: u64,
    pub h: u64,
    pub bumped: usize,
}

#[derive(Debug, Clone, Default, PartialEq)]
pub struct VExtras {
    pub log: Vec<CbEvent>,
}

pub trait ExtrasLog {
    fn take_log(&mut self) -> Vec<CbEvent>;
}
impl ExtrasLog for () {
    fn take_log(&mut self) -> Vec<CbEvent> {
        vec![]
    }
}
impl ExtrasLog for VExtras {
    fn take_log(&mut self) -> Vec<CbEvent> {
        std::mem::take(&mut self.log)
    }
}

/// Decision hash: pure function of (salt, matched bytes).
pub fn decision_hash(salt: u32, slice: &[u8]) -> u64 {
    vmon::rng::fnv_mix(vmon::rng::fnv1a(slice), salt as u64) >> 7
}

/// Bump amount: pure function of (decision hash, remainder): the first character of the
/// remainder when h % 4 == 0 (str: whole char; bytes: one byte).
pub fn bump_amount(h: u64, remainder: &[u8], utf8: bool) -> usize {
    if h % 4 != 0 || remainder.is_empty() {
        return 0;
    }
    if !utf8 {
        return 1;
    }
    match remainder[0] {
        0x00..=0x7F => 1,
        0xC0..=0xDF => 2,
        0xE0..=0xEF => 3,
        _ => 4,
    }
}

pub fn cb_enter_str<'s, T>(lex: &mut Lexer<'s, T>, leaf: usize, salt: u32, bump: bool) -> u64
where
    T: Logos<'s, Source = str, Extras = VExtras>,
{
    let span = lex.span();
    let slice: &str = lex.slice();
    let h = decision_hash(salt, slice.as_bytes());
    let mut bumped = 0;
    if bump {
        bumped = bump_amount(h, lex.remainder().as_bytes(), true);
        if bumped > 0 {
            lex.bump(bumped);
        }
    }
    lex.extras.log.push(CbEvent { leaf: leaf as u32, start: span.start, end: span.end, slice_hash: vmon::rng::fnv1a(slice.as_bytes()), h, bumped });
    h
}

pub fn cb_enter_bytes<'s, T>(lex: &mut Lexer<'s, T>, leaf: usize, salt: u32, bump: bool) -> u64
where
    T: Logos<'s, Source = [u8], Extras = VExtras>,
{
    let span = lex.span();
    let slice: &[u8] = lex.slice();
    let h = decision_hash(salt, slice);
    let mut bumped = 0;
    if bump {
        bumped = bump_amount(h, lex.remainder(), false);
        if bumped > 0 {
            lex.bump(bumped);
        }
    }
    lex.extras.log.push(CbEvent { leaf: leaf as u32, start: span.start, end: span.end, slice_hash: vmon::rng::fnv1a(slice), h, bumped });
    h
}

/// Implemented by generated code for every corpus enum.
pub trait VTok {
    fn vidx(&self) -> u32;
    /// hash of the payload (0 for unit variants)
    fn payload(&self) -> u64;
}

pub fn payload_str(s: &str) -> u64 {
    vmon::rng::fnv1a(s.as_bytes())
}
pub fn payload_bytes(s: &[u8]) -> u64 {
    vmon::rng::fnv1a(s)
}

#[derive(Debug, Clone, PartialEq, Eq)]
pub struct Item {
    pub ok: bool,
    pub v: u32,
    pub payload: u64,
    pub err: u64,
    pub start: usize,
    pub end: usize,
}

#[derive(Debug, Clone, Default)]
pub struct Opts {
    pub partial: bool,
    /// keep read-trace events
    pub trace: bool,
    /// arm the read budget
    pub budget: bool,
    pub max_items: usize,
}

#[derive(Debug, Clone, Default)]
pub struct RunOut {
    pub items: Vec<Item>,
    /// the iterator returned None (as opposed to hitting max_items)
    pub ended: bool,
    /// span() right after the first None
    pub end_span: (usize, usize),
    /// further next() calls after None: all None with unchanged span
    pub post_none_ok: bool,
    /// problems found inside the typed runner (boundaries, slice / remainder mismatches)
    pub problems: Vec<(&'static str, String)>,
    pub events: Vec<logos::verif::Event>,
    pub cb_log: Vec<CbEvent>,
    pub panicked: Option<String>,
}

fn budget_for(len: usize) -> usize {
    4 * (len + 2) + 16
}

macro_rules! runner_body {
    ($T:ty, $src:ident, $opts:ident, $bytes_of_slice:expr, $is_str:expr) => {{
        let mut out = RunOut::default();
        let bytes: &[u8] = $bytes_of_slice($src);
        let len = bytes.len();
        if $opts.trace || $opts.budget {
            logos::verif::arm($opts.trace, if $opts.budget { budget_for(len) } else { usize::MAX });
        }
        let res = catch_unwind(AssertUnwindSafe(|| {
            let mut lex: Lexer<'_, $T> = if $opts.partial { Lexer::new_partial($src) } else { Lexer::new($src) };
            loop {
                if out.items.len() >= $opts.max_items {
                    break;
                }
                match lex.next() {
                    None => {
                        out.ended = true;
                        let sp = lex.span();
                        out.end_span = (sp.start, sp.end);
                        out.post_none_ok = true;
                        // polling again without new input must change nothing (ordinary and partial lexers)
                        for _ in 0..(if $opts.partial { 1 } else { 3 }) {
                            if lex.next().is_some() || lex.span() != sp {
                                out.post_none_ok = false;
                            }
                        }
                        // accessors after the end
                        if sp.start <= sp.end && sp.end <= len && (!$is_str || (vmon::utf8::is_boundary(bytes, sp.start) && vmon::utf8::is_boundary(bytes, sp.end))) {
                            if $bytes_of_slice(lex.slice()) != &bytes[sp.start..sp.end] {
                                out.problems.push(("C14", format!("slice() after None differs from source[{:?}]", sp)));
                            }
                            if $bytes_of_slice(lex.remainder()) != &bytes[sp.end..] {
                                out.problems.push(("C14", format!("remainder() after None differs from source[{}..]", sp.end)));
                            }
                        } else {
                            out.problems.push(("C03", format!("span after None is {:?} for a source of length {}", sp, len)));
                        }
                        break;
                    }
                    Some(r) => {
                        let sp = lex.span();
                        // check the span *before* touching slice(): an invalid span must be reported, not executed
                        let valid = sp.start <= sp.end && sp.end <= len;
                        let on_boundary = !$is_str || (valid && vmon::utf8::is_boundary(bytes, sp.start) && vmon::utf8::is_boundary(bytes, sp.end));
                        let mut item = Item { ok: false, v: 0, payload: 0, err: 0, start: sp.start, end: sp.end };
                        match &r {
                            Ok(t) => {
                                item.ok = true;
                                item.v = t.vidx();
                                item.payload = t.payload();
                            }
                            Err(e) => item.err = e.code(),
                        }
                        out.items.push(item);
                        if !valid {
                            out.problems.push(("C03", format!("item span {:?} outside source of length {}", sp, len)));
                            break;
                        }
                        if !on_boundary {
                            out.problems.push(("C04", format!("item span {:?} splits a UTF-8 code point", sp)));
                            break;
                        }
                        let sl = $bytes_of_slice(lex.slice());
                        if sl != &bytes[sp.start..sp.end] {
                            out.problems.push(("C14", format!("slice() differs from source[{:?}]", sp)));
                        }
                        if $is_str && std::str::from_utf8(sl).is_err() {
                            out.problems.push(("C04", format!("slice() of {:?} is not valid UTF-8", sp)));
                        }
                        let rem = $bytes_of_slice(lex.remainder());
                        if rem != &bytes[sp.end..] {
                            out.problems.push(("C14", format!("remainder() differs from source[{}..]", sp.end)));
                        }
                    }
                }
            }
            out.cb_log = lex.extras.take_log();
        }));
        if $opts.trace || $opts.budget {
            out.events = logos::verif::disarm();
        }
        if let Err(p) = res {
            let msg = if let Some(s) = p.downcast_ref::<String>() {
                s.clone()
            } else if let Some(s) = p.downcast_ref::<&str>() {
                s.to_string()
            } else {
                "non-string panic".into()
            };
            out.panicked = Some(msg);
        }
        out
    }};
}

fn str_bytes(s: &str) -> &[u8] {
    s.as_bytes()
}
fn bytes_bytes(s: &[u8]) -> &[u8] {
    s
}

pub fn run_str<'s, T>(src: &'s str, opts: &Opts) -> RunOut
where
    T: Logos<'s, Source = str> + VTok,
    T::Extras: Default + ExtrasLog,
    T::Error: VErrCode,
{
    runner_body!(T, src, opts, str_bytes, true)
}

pub fn run_bytes<'s, T>(src: &'s [u8], opts: &Opts) -> RunOut
where
    T: Logos<'s, Source = [u8]> + VTok,
    T::Extras: Default + ExtrasLog,
    T::Error: VErrCode,
{
    runner_body!(T, src, opts, bytes_bytes, false)
}

/// `spanned()` must yield exactly the (item, span) pairs of manual iteration.
pub fn run_spanned_str<'s, T>(src: &'s str, max_items: usize) -> Vec<Item>
where
    T: Logos<'s, Source = str> + VTok,
    T::Extras: Default,
    T::Error: VErrCode,
{
    let mut v = vec![];
    for (r, sp) in Lexer::<T>::new(src).spanned().take(max_items) {
        v.push(match r {
            Ok(t) => Item { ok: true, v: t.vidx(), payload: t.payload(), err: 0, start: sp.start, end: sp.end },
            Err(e) => Item { ok: false, v: 0, payload: 0, err: e.code(), start: sp.start, end: sp.end },
        });
    }
    v
}

pub fn run_spanned_bytes<'s, T>(src: &'s [u8], max_items: usize) -> Vec<Item>
where
    T: Logos<'s, Source = [u8]> + VTok,
    T::Extras: Default,
    T::Error: VErrCode,
{
    let mut v = vec![];
    for (r, sp) in Lexer::<T>::new(src).spanned().take(max_items) {
        v.push(match r {
            Ok(t) => Item { ok: true, v: t.vidx(), payload: t.payload(), err: 0, start: sp.start, end: sp.end },
            Err(e) => Item { ok: false, v: 0, payload: 0, err: e.code(), start: sp.start, end: sp.end },
        });
    }
    v
}

/// Table entry generated for every corpus definition.
pub struct Entry {
    pub name: &'static str,
    pub utf8: bool,
    pub run: fn(&[u8], &Opts) -> RunOut,
    pub spanned: fn(&[u8], usize) -> Vec<Item>,
}

/// Which configuration this binary was built in (from cargo features).
pub fn config_name() -> &'static str {
    match (cfg!(feature = "state_machine_codegen"), cfg!(feature = "forbid_unsafe")) {
        (false, false) => "tc",
        (true, false) => "sm",
        (false, true) => "tc_safe",
        (true, true) => "sm_safe",
    }
}
