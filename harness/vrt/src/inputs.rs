//! Input workloads derived from the definition's own captured graph and reference automata.

use std::collections::{HashMap, VecDeque};

use vmon::graph::NONE;
use vmon::refa::{Comp, DEAD, EOI};
use vmon::rng::Rng;
use vmon::utf8;

use crate::monitor::DefCtx;

/// Shortest byte paths to every reachable (graph state, utf8 state) pair.
pub fn state_paths(ctx: &DefCtx) -> Vec<(usize, u8, Vec<u8>)> {
    let g = &ctx.graph;
    let mut out = vec![];
    if g.states.is_empty() {
        return out;
    }
    let mut seen: HashMap<(usize, u8), usize> = HashMap::new();
    let mut q = VecDeque::new();
    seen.insert((g.root, utf8::U_START), 0);
    out.push((g.root, utf8::U_START, vec![]));
    q.push_back(0usize);
    while let Some(i) = q.pop_front() {
        let (s, u, path) = out[i].clone();
        for b in 0..=255u8 {
            let t = ctx.dense.table[s][b as usize];
            if t == NONE {
                continue;
            }
            let nu = if ctx.utf8() { utf8::step(u, b) } else { utf8::U_START };
            if nu == utf8::U_ERR {
                continue;
            }
            let key = (t as usize, nu);
            if seen.contains_key(&key) {
                continue;
            }
            let mut p = path.clone();
            p.push(b);
            seen.insert(key, out.len());
            out.push((t as usize, nu, p));
            q.push_back(out.len() - 1);
        }
    }
    out
}

/// A random member of component `c`'s language (None if the language is empty).
pub fn member(c: &Comp, rng: &mut Rng, walk: usize) -> Option<Vec<u8>> {
    if !c.crp(c.start) {
        return None;
    }
    let mut s = c.start;
    let mut out = vec![];
    for _ in 0..walk {
        // candidate bytes keeping a match reachable
        let mut cands: Vec<u8> = vec![];
        let off = rng.below(256);
        for k in 0..256 {
            let b = ((k + off) % 256) as u8;
            let t = c.next(s, b as usize);
            if t != DEAD && (c.crp(t)) {
                cands.push(b);
                if cands.len() >= 6 {
                    break;
                }
            }
        }
        if cands.is_empty() {
            break;
        }
        let b = *rng.pick(&cands);
        s = c.next(s, b as usize);
        out.push(b);
    }
    // finish with the shortest path to a reporting state (the last unit only reveals the match)
    let tail = c.shortest_path_from(s, |c, t| c.reports[t as usize])?;
    if tail.is_empty() {
        // s itself reports: the match ended one unit earlier
        out.pop();
        return Some(out);
    }
    for &u in &tail[..tail.len() - 1] {
        if u == EOI {
            break;
        }
        out.push(u as u8);
    }
    Some(out)
}

fn push_valid(ctx: &DefCtx, v: Vec<u8>, out: &mut Vec<Vec<u8>>, dropped: &mut usize) {
    if ctx.utf8() && std::str::from_utf8(&v).is_err() {
        *dropped += 1;
        return;
    }
    out.push(v);
}

/// Characters occurring in the definition plus neighbours and case variants.
pub fn alphabet(ctx: &DefCtx) -> Vec<char> {
    let mut chars: Vec<char> = vec!['a', 'b', 'z', '0', ' ', '\n', '_', 'é', 'λ', '€', '😀', 'K', '\u{212A}', 'ſ'];
    for p in &ctx.def.pats {
        for ch in String::from_utf8_lossy(&p.lit.data).chars() {
            if ch == '\u{FFFD}' {
                continue;
            }
            chars.push(ch);
            for d in [-1i32, 1] {
                if let Some(c2) = char::from_u32((ch as i32 + d) as u32) {
                    chars.push(c2);
                }
            }
            chars.extend(ch.to_lowercase());
            chars.extend(ch.to_uppercase());
        }
    }
    chars.sort();
    chars.dedup();
    chars
}

pub struct InputSet {
    pub inputs: Vec<Vec<u8>>,
    pub dropped: usize,
    pub graph_directed: usize,
    pub members: usize,
    pub random: usize,
    pub sweeps: usize,
    pub long: usize,
}

/// Build the ordinary workload for one definition.
/// `all_bytes`: try all 256 bytes in every state (else range boundaries + samples);
/// `cap`: maximal number of inputs (graph-directed part is subsampled deterministically).
pub fn build(ctx: &DefCtx, rng: &mut Rng, all_bytes: bool, cap: usize) -> InputSet {
    let mut set = InputSet { inputs: vec![], dropped: 0, graph_directed: 0, members: 0, random: 0, sweeps: 0, long: 0 };
    let alpha = alphabet(ctx);
    let utf8mode = ctx.utf8();

    // members of each pattern's language
    let mut members: Vec<Vec<u8>> = vec![];
    for c in &ctx.reference.comps {
        for k in 0..6 {
            if let Some(m) = member(c, rng, k * 2) {
                if !m.is_empty() && m.len() < 64 {
                    members.push(m);
                }
            }
        }
    }
    let rand_tail = |rng: &mut Rng| -> Vec<u8> {
        let mut t = vec![];
        match rng.below(3) {
            0 => {
                if !members.is_empty() {
                    t.extend_from_slice(&members[rng.below(members.len())]);
                }
            }
            _ => {
                for _ in 0..rng.range(1, 4) {
                    let mut buf = [0u8; 4];
                    t.extend_from_slice(rng.pick(&alpha).encode_utf8(&mut buf).as_bytes());
                }
            }
        }
        if !utf8mode && rng.chance(1, 3) {
            t.push(rng.byte());
        }
        t
    };

    // I1 graph-directed
    let paths = state_paths(ctx);
    let mut gd: Vec<Vec<u8>> = vec![];
    for (s, u, path) in &paths {
        // end of input in this state
        if *u == utf8::U_START || !utf8mode {
            gd.push(path.clone());
        }
        let mut cands: Vec<u8> = vec![];
        // states with a fast loop (their membership test is a shared look-up table) get every byte
        let has_loop = ctx.graph.states[*s].normal.iter().any(|(_, t)| *t == *s);
        if all_bytes || has_loop {
            cands.extend(0..=255u8);
        } else {
            for (ranges, _) in &ctx.graph.states[*s].normal {
                for &(lo, hi) in ranges {
                    cands.push(lo);
                    cands.push(hi);
                    cands.push(lo.wrapping_sub(1));
                    cands.push(hi.wrapping_add(1));
                    cands.push(lo + (hi - lo) / 2);
                }
            }
            cands.extend_from_slice(&[0x00, b'a', b' ', 0x7F, 0x80, 0xBF, 0xC2, 0xE2, 0xF0, 0xFF]);
            // a spread of UTF-8 lead bytes (every third one, rotating with the state) and their neighbours
            let mut lead = 0xC2u16 + (*s as u16 % 3);
            while lead <= 0xF4 {
                cands.push(lead as u8);
                lead += 3;
            }
            for _ in 0..4 {
                cands.push(rng.byte());
            }
            cands.sort();
            cands.dedup();
        }
        for b in cands {
            let nu = if utf8mode { utf8::step(*u, b) } else { utf8::U_START };
            if nu == utf8::U_ERR {
                continue;
            }
            let mut base = path.clone();
            base.push(b);
            base.extend_from_slice(utf8::completion(nu));
            gd.push(base.clone());
            let mut t2 = base.clone();
            t2.extend(rand_tail(rng));
            gd.push(t2);
        }
    }
    let gd_cap = cap * 3 / 4;
    if gd.len() > gd_cap {
        // deterministic subsample keeping coverage spread over states
        let step = gd.len() as f64 / gd_cap as f64;
        let mut k = 0f64;
        let mut picked = vec![];
        while (k as usize) < gd.len() {
            picked.push(std::mem::take(&mut gd[k as usize]));
            k += step;
        }
        gd = picked;
    }
    for x in gd {
        let before = set.inputs.len();
        push_valid(ctx, x, &mut set.inputs, &mut set.dropped);
        set.graph_directed += set.inputs.len() - before;
    }

    // I2 reference-directed: members concatenated and mutated
    let n_members = (cap / 8).max(40);
    for _ in 0..n_members {
        if members.is_empty() {
            break;
        }
        let mut s: Vec<u8> = vec![];
        for _ in 0..rng.range(1, 4) {
            s.extend_from_slice(&members[rng.below(members.len())]);
            if rng.chance(1, 3) {
                s.extend(rand_tail(rng));
            }
        }
        let m = mutate(&s, rng, utf8mode, &alpha);
        let before = set.inputs.len();
        push_valid(ctx, s, &mut set.inputs, &mut set.dropped);
        push_valid(ctx, m, &mut set.inputs, &mut set.dropped);
        set.members += set.inputs.len() - before;
    }

    // I3 alphabet-random
    for _ in 0..(cap / 10).max(30) {
        let n = rng.range(0, 12);
        let mut s = vec![];
        for _ in 0..n {
            let mut buf = [0u8; 4];
            s.extend_from_slice(rng.pick(&alpha).encode_utf8(&mut buf).as_bytes());
        }
        if !utf8mode && rng.chance(1, 2) {
            // arbitrary bytes, ill-formed sequences of every kind
            let junk: &[&[u8]] = &[b"\x80", b"\xC3", b"\xE2\x82", b"\xC0\xAF", b"\xED\xA0\x80", b"\xF4\x90\x80\x80", b"\xFF", b"\xF0\x9F\x98", b"\xC3\x28"];
            let pos = rng.below(s.len() + 1);
            let j = rng.pick(junk);
            let mut t = s[..pos].to_vec();
            t.extend_from_slice(j);
            t.extend_from_slice(&s[pos..]);
            s = t;
        }
        let before = set.inputs.len();
        push_valid(ctx, s, &mut set.inputs, &mut set.dropped);
        set.random += set.inputs.len() - before;
    }

    // I4 length sweeps: self loops repeated to every length 0..=40, members repeated 0..=12
    let mut sweeps_left = (cap / 6).max(60);
    for (s, u, path) in &paths {
        if sweeps_left == 0 {
            break;
        }
        if *u != utf8::U_START {
            continue;
        }
        let lb = (0..=255u8).find(|&b| ctx.dense.table[*s][b as usize] == *s as u32 && (!utf8mode || b < 0x80));
        if let Some(lb) = lb {
            for n in 0..=40usize {
                if sweeps_left == 0 {
                    break;
                }
                let mut x = path.clone();
                x.extend(std::iter::repeat(lb).take(n));
                let before = set.inputs.len();
                if n % 2 == 1 {
                    let mut y = x.clone();
                    y.push(if lb == b'!' { b'?' } else { b'!' });
                    push_valid(ctx, y, &mut set.inputs, &mut set.dropped);
                }
                push_valid(ctx, x, &mut set.inputs, &mut set.dropped);
                set.sweeps += set.inputs.len() - before;
                sweeps_left = sweeps_left.saturating_sub(1);
            }
        }
    }
    for m in members.iter().take(6) {
        for n in [0usize, 1, 2, 3, 5, 7, 8, 9, 12] {
            let mut x = vec![];
            for _ in 0..n {
                x.extend_from_slice(m);
            }
            let before = set.inputs.len();
            push_valid(ctx, x, &mut set.inputs, &mut set.dropped);
            set.sweeps += set.inputs.len() - before;
        }
    }
    // I6 long inputs: many members and separators, 100..1500 bytes (chunked loops over long runs, long chains of
    // state transitions, many items per run)
    if !members.is_empty() {
        for _ in 0..(cap / 400).max(6) {
            let target = rng.range(100, 1500);
            let mut x: Vec<u8> = vec![];
            while x.len() < target {
                match rng.below(4) {
                    0 => x.extend(rand_tail(rng)),
                    1 => {
                        // a long run of one member
                        let m = &members[rng.below(members.len())];
                        for _ in 0..rng.range(2, 40) {
                            x.extend_from_slice(m);
                        }
                    }
                    _ => x.extend_from_slice(&members[rng.below(members.len())]),
                }
            }
            let before = set.inputs.len();
            push_valid(ctx, x, &mut set.inputs, &mut set.dropped);
            set.long += set.inputs.len() - before;
        }
    }
    set.inputs.push(vec![]);
    set
}

pub fn mutate(s: &[u8], rng: &mut Rng, utf8mode: bool, alpha: &[char]) -> Vec<u8> {
    if s.is_empty() {
        return vec![];
    }
    if utf8mode {
        if let Ok(text) = std::str::from_utf8(s) {
            let mut chars: Vec<char> = text.chars().collect();
            let i = rng.below(chars.len());
            match rng.below(6) {
                0 => chars.truncate(i),
                1 => {
                    chars.remove(i);
                }
                2 => chars.insert(i, chars[i]),
                3 => {
                    let c = chars[i];
                    chars[i] = char::from_u32(c as u32 + 1).unwrap_or(c);
                }
                4 => {
                    let c = chars[i];
                    let up: Vec<char> = c.to_uppercase().collect();
                    let lo: Vec<char> = c.to_lowercase().collect();
                    chars[i] = if up.len() == 1 && up[0] != c { up[0] } else if lo.len() == 1 { lo[0] } else { c };
                }
                _ => chars[i] = *rng.pick(alpha),
            }
            return chars.into_iter().collect::<String>().into_bytes();
        }
    }
    let mut v = s.to_vec();
    let i = rng.below(v.len());
    match rng.below(5) {
        0 => v.truncate(i),
        1 => {
            v.remove(i);
        }
        2 => v.insert(i, v[i]),
        3 => v[i] = v[i].wrapping_add(1),
        _ => v[i] = rng.byte(),
    }
    v
}
