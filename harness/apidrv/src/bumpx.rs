//! C15 / C14: the bump matrix over every way a lexer can be made: partial and non-partial lexers,
//! derived token types over `str` / `[u8]`, and hand-written `Logos` implementations whose `Source`
//! is a `Deref` wrapper (String, Box<str>, Rc<str>, Cow<str>, &str, Vec<u8>, Box<[u8]>) handled by
//! the blanket `Source` impl.  The model is std: `end + n <= len` and, for text, `is_char_boundary`.

use std::borrow::Cow;
use std::panic::{catch_unwind, AssertUnwindSafe};
use std::rc::Rc;

use logos::{Lexer, Logos};

use crate::defs::*;
use crate::util::*;

macro_rules! hand_token {
    ($name:ident, $src:ty, str) => {
        #[derive(Debug, Clone, PartialEq)]
        pub struct $name(pub usize);
        impl<'s> Logos<'s> for $name {
            type Extras = ();
            type Source = $src;
            type Error = ();
            fn lex(lex: &mut Lexer<'s, Self>) -> Option<Result<Self, ()>> {
                let rem: &str = lex.remainder();
                let n = match rem.chars().next() {
                    Some(c) => c.len_utf8(),
                    None => return None,
                };
                lex.bump(n);
                Some(Ok($name(n)))
            }
        }
    };
    ($name:ident, $src:ty, bytes) => {
        #[derive(Debug, Clone, PartialEq)]
        pub struct $name(pub usize);
        impl<'s> Logos<'s> for $name {
            type Extras = ();
            type Source = $src;
            type Error = ();
            fn lex(lex: &mut Lexer<'s, Self>) -> Option<Result<Self, ()>> {
                let rem: &[u8] = lex.remainder();
                if rem.is_empty() {
                    return None;
                }
                lex.bump(1);
                Some(Ok($name(1)))
            }
        }
    };
}

hand_token!(HString, String, str);
hand_token!(HBoxStr, Box<str>, str);
hand_token!(HRcStr, Rc<str>, str);
hand_token!(HCowStr, Cow<'static, str>, str);
hand_token!(HRefStr, &'static str, str);
hand_token!(HVec, Vec<u8>, bytes);
hand_token!(HBoxBytes, Box<[u8]>, bytes);

#[derive(Default)]
pub struct Counters {
    pub cases: usize,
    pub ok_bumps: usize,
    pub panics: usize,
    pub partial_cases: usize,
    pub wrapper_cases: usize,
    pub after_panic: usize,
}

fn boundary(bytes: &[u8], e: usize, is_str: bool) -> bool {
    e <= bytes.len() && (!is_str || e == bytes.len() || (bytes[e] & 0xC0) != 0x80)
}

macro_rules! matrix {
    ($fname:ident, $Tok:ty, $Src:ty, $Owned:ty, $mk:expr, $is_str:expr, $wrapper:expr) => {
        fn $fname(text: &'static [u8], small: bool, label: &str, c: &mut Counters) {
            let owned: $Owned = $mk(text);
            let src: &$Src = &owned;
            let bytes: &[u8] = text;
            let len = bytes.len();
            for partial in [false, true] {
                let mut positions = 0;
                loop {
                    let mut base: Lexer<$Tok> = if partial { Lexer::new_partial(src) } else { Lexer::new(src) };
                    let mut reached = true;
                    for _ in 0..positions {
                        if base.next().is_none() {
                            reached = false;
                            break;
                        }
                    }
                    if !reached {
                        break;
                    }
                    let end = base.span().end;
                    let mut ns: Vec<usize> = (0..=len + 2).collect();
                    for k in 0..if small { 1 } else { 5 } {
                        ns.push(usize::MAX - k);
                        ns.push(usize::MAX / 2 + k);
                        ns.push((usize::MAX - end).wrapping_add(k));
                        ns.push((usize::MAX - end).wrapping_sub(k));
                        ns.push(len + 7 + k * 1000);
                    }
                    for &n in &ns {
                        c.cases += 1;
                        if partial {
                            c.partial_cases += 1;
                        }
                        if $wrapper {
                            c.wrapper_cases += 1;
                        }
                        let mut lex = base.clone();
                        let start0 = lex.span().start;
                        let want_ok = match end.checked_add(n) {
                            Some(e) => boundary(bytes, e, $is_str),
                            None => false,
                        };
                        let res = catch_unwind(AssertUnwindSafe(|| lex.bump(n)));
                        let sp = lex.span();
                        let what = format!("{label}{} {:?} (len {len}): bump({n}) at end {end}", if partial { " partial lexer" } else { "" }, String::from_utf8_lossy(bytes));
                        match (&res, want_ok) {
                            (Ok(()), true) => {
                                c.ok_bumps += 1;
                                if sp.end != end + n || sp.start != start0 {
                                    violation("C15", "bump-wrong-position", &format!("{what}: span {sp:?}"));
                                }
                            }
                            (Ok(()), false) => violation("C15", "bump-did-not-panic", &format!("{what} returned normally, span is now {sp:?}")),
                            (Err(_), true) => violation("C15", "bump-panicked-on-valid-target", &format!("{what} panicked although {} is in range{}", end + n, if $is_str { " and a char boundary" } else { "" })),
                            (Err(_), false) => c.panics += 1,
                        }
                        let inv = |sp: &std::ops::Range<usize>| sp.start <= sp.end && boundary(bytes, sp.start, $is_str) && boundary(bytes, sp.end, $is_str);
                        if !inv(&sp) {
                            violation("C15", "span-invariant-broken", &format!("{what} ({}): the lexer's span is {sp:?}: slice()/remainder() would be out of range or split a character", if res.is_ok() { "returned" } else { "panicked, caught" }));
                            continue;
                        }
                        if AsRef::<[u8]>::as_ref(lex.slice()) != &bytes[sp.clone()] || AsRef::<[u8]>::as_ref(lex.remainder()) != &bytes[sp.end..] {
                            violation("C15", "slice-after-bump", &format!("{what}: slice/remainder differ from the source"));
                        }
                        if res.is_err() {
                            c.after_panic += 1;
                        }
                        for _ in 0..2 {
                            let r = catch_unwind(AssertUnwindSafe(|| lex.next()));
                            let sp2 = lex.span();
                            if !inv(&sp2) {
                                violation("C15", "span-invariant-broken-later", &format!("{what}: a following next() left span {sp2:?}"));
                                break;
                            }
                            if AsRef::<[u8]>::as_ref(lex.slice()) != &bytes[sp2.clone()] {
                                violation("C15", "slice-after-bump", &format!("{what}: slice after a following next()"));
                            }
                            if matches!(r, Ok(None)) {
                                break;
                            }
                        }
                    }
                    positions += 1;
                    if positions > len + 2 || (small && positions > 2) {
                        break;
                    }
                }
            }
        }
    };
}

fn s_of(b: &'static [u8]) -> &'static str {
    std::str::from_utf8(b).unwrap()
}

matrix!(m_str_a, StrA<'_>, str, String, |b| s_of(b).to_string(), true, false);
matrix!(m_str_b, StrB, str, Box<str>, |b| Box::<str>::from(s_of(b)), true, false);
matrix!(m_bytes_a, BytesA<'_>, [u8], Vec<u8>, |b: &[u8]| b.to_vec(), false, false);
matrix!(m_h_string, HString, String, String, |b| s_of(b).to_string(), true, true);
matrix!(m_h_boxstr, HBoxStr, Box<str>, Box<str>, |b| Box::<str>::from(s_of(b)), true, true);
matrix!(m_h_rcstr, HRcStr, Rc<str>, Rc<str>, |b| Rc::<str>::from(s_of(b)), true, true);
matrix!(m_h_cowstr, HCowStr, Cow<'static, str>, Cow<'static, str>, |b| if s_of(b).len() % 2 == 0 { Cow::Borrowed(s_of(b)) } else { Cow::Owned(s_of(b).to_string()) }, true, true);
matrix!(m_h_refstr, HRefStr, &'static str, &'static str, |b| s_of(b), true, true);
matrix!(m_h_vec, HVec, Vec<u8>, Vec<u8>, |b: &[u8]| b.to_vec(), false, true);
matrix!(m_h_boxbytes, HBoxBytes, Box<[u8]>, Box<[u8]>, |b: &[u8]| b.to_vec().into_boxed_slice(), false, true);

pub fn run(small: bool, c: &mut Counters) {
    flip_cases(c);
    let texts: Vec<&'static str> = if small {
        vec!["hé", "\u{10FFFF}b"]
    } else {
        vec!["", "a", "hé llo", "😀+é", "ab 12 ...", "€€", "a\u{10FFFF}b", "\u{100000}\u{10FFFF}1", "x\u{7FF}\u{800}\u{FFFF}\u{10000}y", "ÿ9.ÿ", "12+34 λ"]
    };
    for t in &texts {
        let b = t.as_bytes();
        m_str_a(b, small, "derived str lexer", c);
        m_str_b(b, small, "derived str lexer (B)", c);
        m_bytes_a(b, small, "derived byte lexer", c);
        m_h_string(b, small, "hand-written Logos impl over String", c);
        m_h_boxstr(b, small, "hand-written Logos impl over Box<str>", c);
        m_h_rcstr(b, small, "hand-written Logos impl over Rc<str>", c);
        m_h_cowstr(b, small, "hand-written Logos impl over Cow<str>", c);
        m_h_refstr(b, small, "hand-written Logos impl over &str", c);
        m_h_vec(b, small, "hand-written Logos impl over Vec<u8>", c);
        m_h_boxbytes(b, small, "hand-written Logos impl over Box<[u8]>", c);
    }
    // arbitrary bytes through the byte-source wrappers
    for t in [&b"\xFF\x80a"[..], &b"\xC3"[..]].iter().take(if small { 1 } else { 2 }).copied() {
        m_bytes_a(t, small, "derived byte lexer", c);
        m_h_vec(t, small, "hand-written Logos impl over Vec<u8>", c);
        m_h_boxbytes(t, small, "hand-written Logos impl over Box<[u8]>", c);
    }
}

// ---------------------------------------------------------------------------------------------
// A source whose `Deref` is not pure (safe code need not return the same target on every call): a long string on
// even calls, a one-byte string on odd calls. Whatever the lexer does with it, safe code must never obtain a slice
// that lies outside both strings: a panic is fine, an out-of-range `&str` is not. The returned `&str` is judged by
// address and length only (it is never read), so a violation is reported instead of executed.

pub struct Flip {
    long: String,
    short: String,
    calls: std::cell::Cell<usize>,
}

impl std::ops::Deref for Flip {
    type Target = str;
    fn deref(&self) -> &str {
        let c = self.calls.get();
        self.calls.set(c + 1);
        if c % 2 == 0 { &self.long } else { &self.short }
    }
}

#[derive(Debug, Clone, PartialEq)]
pub struct HFlip;
impl<'s> Logos<'s> for HFlip {
    type Extras = ();
    type Source = Flip;
    type Error = ();
    fn lex(_lex: &mut Lexer<'s, Self>) -> Option<Result<Self, ()>> {
        None
    }
}

pub fn flip_cases(c: &mut Counters) {
    for nlong in [9usize, 64, 4096] {
        for phase in 0..2usize {
            for k in [0usize, 1, 2, nlong / 2, nlong - 1, nlong] {
                for first in 0..3usize {
                    let src = Flip { long: "x".repeat(nlong), short: "s".into(), calls: std::cell::Cell::new(phase) };
                    let inside = |p: usize, n: usize| [&src.long, &src.short].iter().any(|b| p >= b.as_ptr() as usize && p + n <= b.as_ptr() as usize + b.len());
                    let mut lex = HFlip::lexer(&src);
                    c.cases += 1;
                    c.wrapper_cases += 1;
                    if first > 0 {
                        if catch_unwind(AssertUnwindSafe(|| lex.bump(k))).is_err() {
                            c.panics += 1;
                        } else {
                            c.ok_bumps += 1;
                        }
                    }
                    for what in ["remainder", "slice"] {
                        if first == 2 && what == "remainder" {
                            continue;
                        }
                        let got = catch_unwind(AssertUnwindSafe(|| {
                            let s: &str = if what == "remainder" { lex.remainder() } else { lex.slice() };
                            (s.as_ptr() as usize, s.len())
                        }));
                        if let Ok((p, n)) = got {
                            if !inside(p, n) {
                                violation("C15", "slice-outside-source", &format!("impure Deref source (strings of {nlong} and 1 bytes, phase {phase}), bump({k}) {}: {what}() returned {n} bytes that lie in neither string", if first > 0 { "called" } else { "not called" }));
                            }
                        }
                    }
                }
            }
        }
    }
}
