//! C14: random histories over the public Lexer API against a small model.
//! `next()` from position e is predicted by a *fresh* lexer over source[e..] (lexing is position
//! independent: no look-behind is ever accepted), everything else by (start, end, partial, extras).

use std::fmt::Debug;
use std::ops::Range;

use logos::{Lexer, Logos};

use crate::defs::*;
use crate::util::*;

fn fail(hist: &[String], rule: &str, detail: String) {
    violation("C14", rule, &format!("{detail}; history: {}", hist.join(" ")));
}

macro_rules! family {
    ($modname:ident, $Src:ty, $A:ty, $AE:ty, $B:ty, $texts:expr, $to_src:expr, $is_str:expr) => {
        pub mod $modname {
            use super::*;

            const IS_STR: bool = $is_str;

            enum Cur<'s> {
                A(Lexer<'s, $A>),
                B(Lexer<'s, $B>),
            }

            fn predict<'s, T>(rem: &'s $Src, partial: bool, ex: Ex) -> (String, Range<usize>, Ex)
            where
                T: Logos<'s, Source = $Src, Extras = Ex> + Debug,
            {
                let mut fresh: Lexer<'s, T> = if partial { Lexer::partial_with_extras(rem, ex) } else { Lexer::with_extras(rem, ex) };
                let r = fresh.next();
                (format!("{:?}", r), fresh.span(), fresh.extras.clone())
            }

            fn take_some<'s, T>(mut c: Lexer<'s, T>, k: usize) -> Vec<(String, Range<usize>)>
            where
                T: Logos<'s, Source = $Src, Extras = Ex> + Debug,
            {
                let mut v = vec![];
                for _ in 0..k {
                    match c.next() {
                        Some(r) => v.push((format!("{:?}", r), c.span())),
                        None => {
                            v.push(("None".into(), c.span()));
                            break;
                        }
                    }
                }
                v
            }

            fn spanned_some<'s, T>(c: Lexer<'s, T>, k: usize) -> Vec<(String, Range<usize>)>
            where
                T: Logos<'s, Source = $Src, Extras = Ex> + Debug + Clone,
            {
                // through Deref / DerefMut and a clone of the iterator taken half way
                let src = c.source();
                let mut it = c.spanned();
                let mut out = vec![];
                for i in 0..k {
                    if i == k / 2 {
                        let mut twin = it.clone();
                        let a = twin.next().map(|(r, sp)| (format!("{:?}", r), sp));
                        let mut twin2 = it.clone();
                        let b = twin2.next().map(|(r, sp)| (format!("{:?}", r), sp));
                        if a != b {
                            out.push(("CLONED-SPANNED-ITERATORS-DISAGREE".to_string(), 0..0));
                        }
                    }
                    match it.next() {
                        Some((r, sp)) => {
                            // Deref: accessors of the inner lexer
                            if it.span() != sp || !std::ptr::eq(it.source(), src) {
                                out.push(("SPANNED-DEREF-DISAGREES".to_string(), sp.clone()));
                            }
                            // DerefMut: a zero bump must not change anything
                            it.bump(0);
                            if it.span() != sp {
                                out.push(("SPANNED-DEREFMUT-BUMP0-MOVED".to_string(), sp.clone()));
                            }
                            out.push((format!("{:?}", r), sp));
                        }
                        None => break,
                    }
                }
                out
            }


            /// Drive a live SpannedIter (the lexer is consumed by `spanned()`): items versus a fresh lexer over the rest,
            /// bumps through DerefMut, and - the part a "fused" iterator gets wrong - polling again after a None once the
            /// inner lexer was moved on (partial lexers return None for an unfinished item, not for the end).
            #[allow(clippy::too_many_arguments)]
            fn spanned_live<'s, T>(lex: Lexer<'s, T>, src: &'s $Src, bytes: &[u8], partial: bool, start: &mut usize, end: &mut usize, ex: &mut Ex, rng: &mut Rng, hist: &mut Vec<String>, broken: &mut bool) -> Lexer<'s, T>
            where
                T: Logos<'s, Source = $Src, Extras = Ex> + Debug + Clone,
            {
                let len = bytes.len();
                let mut it = lex.spanned();
                let mut after_none = false;
                for _ in 0..(2 + rng.below(5)) {
                    if *broken {
                        break;
                    }
                    let do_bump = if after_none { rng.below(2) == 0 } else { rng.below(4) == 0 };
                    if do_bump {
                        let mut cands = vec![];
                        for n in 0..=(len - *end).min(6) {
                            if model_boundary(bytes, *end + n, IS_STR) {
                                cands.push(n);
                            }
                        }
                        let n = cands[rng.below(cands.len())];
                        hist.push(format!("spanned.bump({n})"));
                        if std::panic::catch_unwind(std::panic::AssertUnwindSafe(|| it.bump(n))).is_err() {
                            fail(hist, "in-range-bump-panicked", format!("bump({n}) through SpannedIter's DerefMut from end {} (source length {len}) panicked", *end));
                            *broken = true;
                            break;
                        }
                        *end += n;
                    } else {
                        hist.push("spanned.next".into());
                        let (pr, psp, pex) = predict::<T>(&src[*end..], partial, ex.clone());
                        let got = it.next();
                        let r = format!("{:?}", got.as_ref().map(|(r, _)| r));
                        let want = (psp.start + *end)..(psp.end + *end);
                        let sp = it.span();
                        let pair_ok = match &got {
                            Some((_, gsp)) => *gsp == sp,
                            None => true,
                        };
                        if r != pr || sp != want || !pair_ok || it.extras != pex {
                            fail(hist, "spanned-differs", format!("SpannedIter::next() at end {}: got {r} (pair span {:?}, lexer span {sp:?}, extras {:?}); a fresh lexer over the rest gives {pr} {want:?} extras {pex:?}", *end, got.as_ref().map(|(_, s)| s.clone()), it.extras));
                            *broken = true;
                            break;
                        }
                        after_none = got.is_none();
                        *start = sp.start;
                        *end = sp.end;
                        *ex = it.extras.clone();
                    }
                }
                (*it).clone()
            }

            /// `a.clone_from(&b)`: afterwards `a` must be indistinguishable from `b.clone()` (position, mode, extras).
            /// The donor is a fresh lexer of the other mode half of the time, advanced a few items.
            #[allow(clippy::too_many_arguments)]
            fn clone_from_donor<'s, T>(lex: &mut Lexer<'s, T>, src: &'s $Src, partial: &mut bool, start: &mut usize, end: &mut usize, ex: &mut Ex, rng: &mut Rng, hist: &mut Vec<String>, broken: &mut bool)
            where
                T: Logos<'s, Source = $Src, Extras = Ex> + Debug + Clone,
            {
                let dpartial = if rng.below(2) == 0 { !*partial } else { *partial };
                let dex = Ex { n: 50 + rng.below(5) as u32, tag: Box::new(500 + rng.below(5) as u32) };
                let mut donor: Lexer<'s, T> = if dpartial { Lexer::partial_with_extras(src, dex) } else { Lexer::with_extras(src, dex) };
                let k = rng.below(4);
                for _ in 0..k {
                    let _ = donor.next();
                }
                hist.push(format!("clone_from(donor partial={dpartial} advanced {k})"));
                // the reverse direction first: a scratch lexer of the donor's mode overwritten with the current one
                let mut scratch = donor.clone();
                scratch.clone_from(lex);
                let a = take_some(scratch, 3);
                let b = take_some(lex.clone(), 3);
                if a != b {
                    fail(hist, "clone-from-differs", format!("x.clone_from(&cur) continues with {a:?}, cur.clone() with {b:?}"));
                    *broken = true;
                    return;
                }
                lex.clone_from(&donor);
                let a = take_some(lex.clone(), 3);
                let b = take_some(donor.clone(), 3);
                if a != b || lex.span() != donor.span() || lex.extras != donor.extras {
                    fail(hist, "clone-from-differs", format!("after cur.clone_from(&donor): cur continues with {a:?} from {:?} extras {:?}, the donor with {b:?} from {:?} extras {:?}", lex.span(), lex.extras, donor.span(), donor.extras));
                    *broken = true;
                    return;
                }
                *partial = dpartial;
                *start = donor.span().start;
                *end = donor.span().end;
                *ex = donor.extras.clone();
                hist[0] = format!("{} (now partial={dpartial})", hist[0]);
            }

            macro_rules! with {
                ($cur:expr, $lex:ident => $body:expr) => {
                    match $cur {
                        Cur::A($lex) => $body,
                        Cur::B($lex) => $body,
                    }
                };
            }

            pub fn run(seed: u64, count: usize, stats: &mut [usize; 10]) {
                let texts: Vec<&'static [u8]> = $texts;
                for h in 0..count {
                    let mut rng = Rng::new(seed.wrapping_mul(1_000_003).wrapping_add(h as u64));
                    let text = texts[rng.below(texts.len())];
                    let block = Exact::new(text, h % 3);
                    let bytes: &[u8] = block.bytes();
                    let src: &$Src = $to_src(bytes);
                    let len = bytes.len();
                    let mut partial = rng.below(4) == 0;
                    let ex0 = Ex { n: rng.below(5) as u32, tag: Box::new(40 + rng.below(5) as u32) };
                    // constructors: Lexer::{with_extras, partial_with_extras} and the trait's lexer_with_extras
                    let via_trait = rng.below(3) == 0;
                    let mut cur: Cur = if rng.below(2) == 0 {
                        Cur::A(if partial { Lexer::partial_with_extras(src, ex0.clone()) } else if via_trait { <$AE as Logos>::lexer_with_extras(src, ex0.clone()) } else { Lexer::with_extras(src, ex0.clone()) })
                    } else {
                        Cur::B(if partial { Lexer::partial_with_extras(src, ex0.clone()) } else if via_trait { <$B as Logos>::lexer_with_extras(src, ex0.clone()) } else { Lexer::with_extras(src, ex0.clone()) })
                    };
                    let (mut start, mut end) = (0usize, 0usize);
                    let mut ex = ex0;
                    let mut stored_a: Option<Lexer<$AE>> = None;
                    let mut stored_b: Option<Lexer<$B>> = None;
                    let mut hist: Vec<String> = vec![format!("src={:?} partial={partial} start={}", String::from_utf8_lossy(bytes), if matches!(cur, Cur::A(_)) { "A" } else { "B" })];
                    let steps = 5 + rng.below(36);
                    let mut broken = false;
                    for _ in 0..steps {
                        if broken {
                            break;
                        }
                        let op = rng.below(12);
                        match op {
                            0 | 1 | 2 => {
                                // next
                                hist.push("next".into());
                                stats[0] += 1;
                                let (pr, psp, pex) = match &cur {
                                    Cur::A(_) => predict::<$AE>(&src[end..], partial, ex.clone()),
                                    Cur::B(_) => predict::<$B>(&src[end..], partial, ex.clone()),
                                };
                                let (r, sp, gex) = with!(&mut cur, lex => { let r = lex.next(); (format!("{:?}", r), lex.span(), lex.extras.clone()) });
                                let want = (psp.start + end)..(psp.end + end);
                                if r != pr || sp != want || gex != pex {
                                    fail(&hist, "next-differs-from-fresh-lexer", format!("next() at end {end}: got {r} {sp:?} extras {gex:?}; a fresh lexer over source[{end}..] gives {pr} {want:?} extras {pex:?}"));
                                    broken = true;
                                }
                                start = sp.start;
                                end = sp.end;
                                ex = gex;
                            }
                            3 => {
                                // in-range bump to a valid boundary
                                // valid targets by the model (std's char boundaries / len), not by logos
                                let mut cands = vec![];
                                for n in 0..=(len - end).min(6) {
                                    let e = end + n;
                                    if model_boundary(bytes, e, IS_STR) {
                                        cands.push(n);
                                    }
                                }
                                // prefer the end of the source now and then
                                let n = if rng.below(4) == 0 && model_boundary(bytes, len, IS_STR) && len - end <= 64 { len - end } else { cands[rng.below(cands.len())] };
                                hist.push(format!("bump({n})"));
                                stats[1] += 1;
                                let r = std::panic::catch_unwind(std::panic::AssertUnwindSafe(|| with!(&mut cur, lex => lex.bump(n))));
                                if r.is_err() {
                                    fail(&hist, "in-range-bump-panicked", format!("bump({n}) from end {end} to {} (source length {len}) panicked", end + n));
                                    broken = true;
                                } else {
                                    end += n;
                                }
                            }
                            4 => {
                                // clone, advance the clone, the original must not notice and later produce the same items
                                hist.push("clone-race".into());
                                stats[2] += 1;
                                let k = 1 + rng.below(3);
                                let items = match &cur {
                                    Cur::A(lex) => take_some(lex.clone(), k),
                                    Cur::B(lex) => take_some(lex.clone(), k),
                                };
                                let (sp, gex) = with!(&cur, lex => (lex.span(), lex.extras.clone()));
                                if sp != (start..end) || gex != ex {
                                    fail(&hist, "clone-perturbed-original", format!("after advancing a clone the original has span {sp:?} extras {gex:?}, expected {start}..{end} {ex:?}"));
                                    broken = true;
                                }
                                for (want_r, want_sp) in items {
                                    let (r, sp, gex) = with!(&mut cur, lex => { let r = lex.next(); (match r { Some(x) => format!("{:?}", x), None => "None".to_string() }, lex.span(), lex.extras.clone()) });
                                    hist.push("next".into());
                                    if r != want_r || sp != want_sp {
                                        fail(&hist, "clone-continuation-differs", format!("clone produced {want_r} {want_sp:?}, the original then produced {r} {sp:?}"));
                                        broken = true;
                                        break;
                                    }
                                    start = sp.start;
                                    end = sp.end;
                                    ex = gex;
                                }
                            }
                            5 => {
                                // store / drop a clone (heap-owning extras)
                                hist.push("store-clone".into());
                                stats[3] += 1;
                                match &cur {
                                    Cur::A(lex) => {
                                        let mut c = lex.clone();
                                        *c.extras.tag += 100;
                                        stored_a = Some(c);
                                    }
                                    Cur::B(lex) => {
                                        let mut c = lex.clone();
                                        *c.extras.tag += 100;
                                        stored_b = Some(c);
                                    }
                                }
                                if rng.below(2) == 0 {
                                    stored_a = None;
                                }
                                if rng.below(2) == 0 {
                                    stored_b = None;
                                }
                                let t = with!(&cur, lex => *lex.extras.tag);
                                if t != *ex.tag {
                                    fail(&hist, "clone-shares-extras", format!("mutating a clone's extras changed the original: tag {t} expected {}", *ex.tag));
                                    broken = true;
                                }
                            }
                            6 => {
                                // morph to the other token type and (later) back
                                hist.push("morph".into());
                                stats[4] += 1;
                                cur = match cur {
                                    Cur::A(lex) => Cur::B(lex.morph()),
                                    Cur::B(lex) => Cur::A(lex.morph()),
                                };
                            }
                            7 => {
                                // spanned() pairs == manual iteration
                                hist.push("spanned".into());
                                stats[5] += 1;
                                let k = 1 + rng.below(4);
                                let (a, b) = match &cur {
                                    Cur::A(lex) => (spanned_some(lex.clone(), k), take_some(lex.clone(), k)),
                                    Cur::B(lex) => (spanned_some(lex.clone(), k), take_some(lex.clone(), k)),
                                };
                                let b: Vec<_> = b.into_iter().filter(|(r, _)| r != "None").collect();
                                if a != b {
                                    fail(&hist, "spanned-differs", format!("spanned() gives {a:?}, manual iteration {b:?}"));
                                    broken = true;
                                }
                            }
                            8 => {
                                hist.push("extras+=7".into());
                                stats[6] += 1;
                                with!(&mut cur, lex => { lex.extras.n += 7; *lex.extras.tag += 1; });
                                ex.n += 7;
                                *ex.tag += 1;
                            }
                            9 => {
                                // the lexer lives inside a SpannedIter for a while
                                stats[5] += 1;
                                cur = match cur {
                                    Cur::A(lex) => Cur::A(spanned_live(lex, src, bytes, partial, &mut start, &mut end, &mut ex, &mut rng, &mut hist, &mut broken)),
                                    Cur::B(lex) => Cur::B(spanned_live(lex, src, bytes, partial, &mut start, &mut end, &mut ex, &mut rng, &mut hist, &mut broken)),
                                };
                            }
                            10 => {
                                stats[7] += 1;
                                match &mut cur {
                                    Cur::A(lex) => clone_from_donor(lex, src, &mut partial, &mut start, &mut end, &mut ex, &mut rng, &mut hist, &mut broken),
                                    Cur::B(lex) => clone_from_donor(lex, src, &mut partial, &mut start, &mut end, &mut ex, &mut rng, &mut hist, &mut broken),
                                }
                            }
                            _ => {}
                        }
                        if broken {
                            break;
                        }
                        // accessors after every operation
                        #[allow(deprecated)]
                        let range_ok = with!(&cur, lex => lex.range() == lex.span() && !format!("{:?}", lex).is_empty());
                        if !range_ok {
                            fail(&hist, "range-differs-from-span", "deprecated range() differs from span()".to_string());
                            broken = true;
                        }
                        let (sp, sl_ok, rem_ok, src_ok, gex) = with!(&cur, lex => {
                            let sp = lex.span();
                            let valid = sp.start <= sp.end && sp.end <= len;
                            (sp.clone(), valid && lex.slice() == &src[sp.clone()], valid && lex.remainder() == &src[sp.end..], std::ptr::eq(lex.source(), src), lex.extras.clone())
                        });
                        stats[8] += 1;
                        if sp != (start..end) {
                            fail(&hist, "span-differs-from-model", format!("span() = {sp:?}, model {start}..{end}"));
                            broken = true;
                        } else if !sl_ok || !rem_ok || !src_ok {
                            fail(&hist, "accessor-differs", format!("slice ok={sl_ok} remainder ok={rem_ok} source ok={src_ok} at span {sp:?}"));
                            broken = true;
                        }
                        if gex != ex {
                            fail(&hist, "extras-differ-from-model", format!("extras {gex:?}, model {ex:?}"));
                            broken = true;
                        }
                    }
                    drop(stored_a);
                    drop(stored_b);
                    stats[9] += 1;
                }
            }
        }
    };
}

fn model_boundary(bytes: &[u8], e: usize, is_str: bool) -> bool {
    if e > bytes.len() {
        return false;
    }
    !is_str || e == bytes.len() || (bytes[e] & 0xC0) != 0x80
}

fn as_str(b: &[u8]) -> &str {
    std::str::from_utf8(b).unwrap()
}
fn as_bytes(b: &[u8]) -> &[u8] {
    b
}

family!(strfam, str, StrA<'s>, StrA<'_>, StrB, vec![
    "hello world 12 + 3".as_bytes(), "a...b. \"q\" zz".as_bytes(), "hé €😀 λ 1+1".as_bytes(), "".as_bytes(), "   ".as_bytes(), "@@ x @".as_bytes(),
    "hello".as_bytes(), "ÿ9.ÿ".as_bytes(), "a\u{10FFFF}b \u{100000}+1".as_bytes(), "\u{10FFFF}\u{10FFFF}x\u{FFFF}\u{10000}".as_bytes(), "\"open 12".as_bytes(), "x".as_bytes(), "12345678 abcdefgh +++".as_bytes(),
], as_str, true);

family!(bytesfam, [u8], BytesA<'s>, BytesA<'_>, BytesB, vec![
    &b"hello world 12 + 3"[..], &b"a...b. zz"[..], &b"h\xC3\xA9 \xFF\xFE 1+1"[..], &b""[..], &b"   "[..], &b"@@ x @"[..], &b"hello"[..], &b"\x80\x819.\xFF"[..], &b"x"[..],
], as_bytes, false);

pub fn sub_hist(seed: u64, count: usize, small: bool) {
    let count = if small { count.min(60) } else { count };
    let mut stats = [0usize; 10];
    strfam::run(seed, count, &mut stats);
    bytesfam::run(seed ^ 0x5555, count, &mut stats);
    summary("hist", &[("cases", stats[9]), ("next", stats[0]), ("bump", stats[1]), ("clone_race", stats[2]), ("store_clone", stats[3]), ("morph", stats[4]),
        ("spanned", stats[5]), ("extras_mut", stats[6]), ("clone_from", stats[7]), ("accessor_checks", stats[8]), ("nontrivial", stats[9])]);
    sample("hist", "src=\"hé €😀 λ 1+1\" partial=false start=A: next next bump(1) morph next clone-race next spanned store-clone extras+=7 morph next ... (accessors checked after every step)");
}
