//! apidrv: fixed definitions exercising the public runtime API of logos under models:
//!   read   - Source::read model (C05)
//!   bump   - Lexer::bump outcomes + span invariant (C15)
//!   hist   - random API histories: next/bump/clone/morph/spanned/accessors (C14)
//!   stack  - stack-depth probe of the state-machine lexer (C06)
//!   adv    - adversarial repetition patterns under the read trace (C20)
//!   long   - long inputs (C03/C05/C06)
//! No oracle library is linked, so the same binary runs under Miri and ASan.
//! Output protocol (stdout): `V|prop|rule|detail` violation, `S|sub|k=v ...` summary, `E|sub|text` sample.

mod defs;
mod hist;
mod bumpx;
mod twin;
mod util;

use std::panic::{catch_unwind, AssertUnwindSafe};

use logos::{Lexer, Source};
use util::*;

fn model_read(len: usize, offset: usize, size: usize) -> bool {
    match offset.checked_add(size) {
        Some(end) => end <= len,
        None => false,
    }
}

macro_rules! check_read_n {
    ($src:expr, $bytes:expr, $off:expr, $n:literal, $cases:ident, $some:ident) => {{
        let got: Option<&[u8; $n]> = $src.read($off);
        $cases += 1;
        let want = model_read($bytes.len(), $off, $n);
        match got {
            Some(chunk) => {
                $some += 1;
                if !want {
                    violation("C05", "read-some-out-of-range", &format!("read::<&[u8;{}]>({}) on a source of length {} returned Some", $n, $off, $bytes.len()));
                } else if &chunk[..] != &$bytes[$off..$off + $n] {
                    violation("C05", "read-wrong-bytes", &format!("read::<&[u8;{}]>({}) returned {:?}, source holds {:?}", $n, $off, chunk, &$bytes[$off..$off + $n]));
                }
            }
            None => {
                if want {
                    violation("C05", "read-none-in-range", &format!("read::<&[u8;{}]>({}) on a source of length {} returned None", $n, $off, $bytes.len()));
                }
            }
        }
    }};
}

fn read_one<S: Source + ?Sized>(src: &S, bytes: &[u8], off: usize, cases: &mut usize, some: &mut usize) {
    let mut c = 0usize;
    let mut s = 0usize;
    {
        let got: Option<u8> = src.read(off);
        c += 1;
        let want = model_read(bytes.len(), off, 1);
        match got {
            Some(b) => {
                s += 1;
                if !want {
                    violation("C05", "read-some-out-of-range", &format!("read::<u8>({}) on a source of length {} returned Some", off, bytes.len()));
                } else if b != bytes[off] {
                    violation("C05", "read-wrong-bytes", &format!("read::<u8>({}) returned {}, source holds {}", off, b, bytes[off]));
                }
            }
            None => {
                if want {
                    violation("C05", "read-none-in-range", &format!("read::<u8>({}) on a source of length {} returned None", off, bytes.len()));
                }
            }
        }
    }
    // the zero-sized chunk is a chunk like any other: Some exactly when off <= len
    check_read_n!(src, bytes, off, 0, c, s);
    check_read_n!(src, bytes, off, 1, c, s);
    check_read_n!(src, bytes, off, 2, c, s);
    check_read_n!(src, bytes, off, 3, c, s);
    check_read_n!(src, bytes, off, 4, c, s);
    check_read_n!(src, bytes, off, 5, c, s);
    check_read_n!(src, bytes, off, 6, c, s);
    check_read_n!(src, bytes, off, 7, c, s);
    check_read_n!(src, bytes, off, 8, c, s);
    check_read_n!(src, bytes, off, 9, c, s);
    check_read_n!(src, bytes, off, 10, c, s);
    check_read_n!(src, bytes, off, 11, c, s);
    check_read_n!(src, bytes, off, 12, c, s);
    check_read_n!(src, bytes, off, 13, c, s);
    check_read_n!(src, bytes, off, 14, c, s);
    check_read_n!(src, bytes, off, 15, c, s);
    check_read_n!(src, bytes, off, 16, c, s);
    check_read_n!(src, bytes, off, 17, c, s);
    check_read_n!(src, bytes, off, 24, c, s);
    check_read_n!(src, bytes, off, 31, c, s);
    check_read_n!(src, bytes, off, 32, c, s);
    check_read_n!(src, bytes, off, 33, c, s);
    check_read_n!(src, bytes, off, 64, c, s);
    *cases += c;
    *some += s;
}

/// C05 (iv): Source::read::<u8 | &[u8;0..=17] | &[u8;24|31|32|33|64]> for str, [u8], String, Vec<u8>, &str, Box<str>
fn sub_read(small: bool) {
    let max_len = if small { 12 } else { 40 };
    let (mut cases, mut some) = (0usize, 0usize);
    let mut lens = 0;
    for len in 0..=max_len {
        lens += 1;
        let text: String = (0..len).map(|i| (b'a' + (i % 26) as u8) as char).collect();
        // exactly-sized heap blocks, source at the end of the block
        let block = Exact::new(text.as_bytes(), len % 3);
        let bytes: &[u8] = block.bytes();
        let s: &str = std::str::from_utf8(bytes).unwrap();
        let owned_string = String::from(s);
        let owned_vec = bytes.to_vec();
        let boxed: Box<str> = s.into();
        let mut offsets: Vec<usize> = (0..=len + 9).collect();
        for k in 0..if small { 3 } else { 40 } {
            offsets.push(usize::MAX - k);
            offsets.push(usize::MAX / 2 + k);
            offsets.push((usize::MAX - len).wrapping_add(k));
            offsets.push((usize::MAX - len).wrapping_sub(k));
        }
        for &off in &offsets {
            read_one::<str>(s, bytes, off, &mut cases, &mut some);
            read_one::<[u8]>(bytes, bytes, off, &mut cases, &mut some);
            if !small || off <= len + 1 {
                read_one::<String>(&owned_string, bytes, off, &mut cases, &mut some);
                read_one::<Vec<u8>>(&owned_vec, bytes, off, &mut cases, &mut some);
                read_one::<&str>(&s, bytes, off, &mut cases, &mut some);
                read_one::<Box<str>>(&boxed, bytes, off, &mut cases, &mut some);
            }
        }
        // slice / is_boundary / find_boundary agree with std
        for a in 0..=len + 2 {
            if Source::is_boundary(s, a) != s.is_char_boundary(a) {
                violation("C05", "is-boundary", &format!("str::is_boundary({a}) on length {len}"));
            }
            if Source::is_boundary(bytes, a) != (a <= len) {
                violation("C05", "is-boundary", &format!("[u8]::is_boundary({a}) on length {len}"));
            }
            for b in a..=len + 2 {
                let got = <str as Source>::slice(s, a..b);
                if got != s.get(a..b) {
                    violation("C05", "slice", &format!("str::slice({a}..{b}) on length {len}"));
                }
                cases += 1;
            }
        }
    }
    // wrapper sources (Deref forwarding): every trait method must behave like the wrapped str / [u8]
    {
        let m = "aé€😀z";
        let owned = String::from(m);
        let boxed: Box<str> = m.into();
        let rc: std::rc::Rc<str> = m.into();
        let mb = m.as_bytes();
        let vecb = mb.to_vec();
        for a in 0..=m.len() + 2 {
            cases += 1;
            let want_b = m.is_char_boundary(a);
            if Source::is_boundary(&owned, a) != want_b || Source::is_boundary(&boxed, a) != want_b || Source::is_boundary(&m, a) != want_b || Source::is_boundary(&rc, a) != want_b {
                violation("C05", "wrapper-is-boundary", &format!("is_boundary({a}) through String/Box<str>/&str/Rc<str> differs from str"));
            }
            if Source::is_boundary(&vecb, a) != (a <= mb.len()) || Source::is_boundary(&mb, a) != (a <= mb.len()) {
                violation("C05", "wrapper-is-boundary", &format!("is_boundary({a}) through Vec<u8>/&[u8] differs from [u8]"));
            }
            if a <= m.len() {
                let want = (a..=m.len()).find(|&j| m.is_char_boundary(j)).unwrap();
                if Source::find_boundary(&owned, a) != want || Source::find_boundary(&boxed, a) != want || Source::find_boundary(&m, a) != want {
                    violation("C05", "wrapper-find-boundary", &format!("find_boundary({a}) through a wrapper source is not {want}"));
                }
                if Source::find_boundary(&vecb, a) != a {
                    violation("C05", "wrapper-find-boundary", &format!("find_boundary({a}) through Vec<u8> is not {a}"));
                }
            }
            for b in a..=m.len() + 2 {
                cases += 1;
                if <String as Source>::slice(&owned, a..b) != m.get(a..b) || <Box<str> as Source>::slice(&boxed, a..b) != m.get(a..b) {
                    violation("C05", "wrapper-slice", &format!("slice({a}..{b}) through a str wrapper differs from str::get"));
                }
                if <Vec<u8> as Source>::slice(&vecb, a..b) != mb.get(a..b) {
                    violation("C05", "wrapper-slice", &format!("slice({a}..{b}) through Vec<u8> differs from <[u8]>::get"));
                }
                #[cfg(not(feature = "forbid_unsafe"))]
                if m.get(a..b).is_some() {
                    // in-range, boundary-aligned: the unchecked variants must return the same slice
                    let s1 = unsafe { <String as Source>::slice_unchecked(&owned, a..b) };
                    let s2 = unsafe { <Vec<u8> as Source>::slice_unchecked(&vecb, a..b) };
                    if s1 != &m[a..b] || s2 != &mb[a..b] {
                        violation("C05", "wrapper-slice-unchecked", &format!("slice_unchecked({a}..{b}) through a wrapper differs"));
                    }
                }
            }
        }
        if Source::len(&owned) != m.len() || Source::len(&vecb) != mb.len() || Source::len(&rc) != m.len() {
            violation("C05", "wrapper-len", "len() through a wrapper source differs");
        }
    }
    // multi-byte: is_boundary / find_boundary
    let m = "aé€😀z";
    for i in 0..=m.len() + 1 {
        cases += 1;
        if Source::is_boundary(m, i) != m.is_char_boundary(i) {
            violation("C05", "is-boundary", &format!("str::is_boundary({i}) on {m:?}"));
        }
        if i <= m.len() {
            let fb = Source::find_boundary(m, i);
            let want = (i..=m.len()).find(|&j| m.is_char_boundary(j)).unwrap();
            if fb != want {
                violation("C05", "find-boundary", &format!("str::find_boundary({i}) on {m:?} = {fb}, expected {want}"));
            }
        }
    }
    summary("read", &[("cases", cases), ("returned_some", some), ("source_lengths", lens), ("nontrivial", some)]);
    sample("read", &format!("read::<&[u8;N]>(off) for N in 1..=16,32 and u8, lengths 0..={max_len}, offsets 0..=len+9 and near usize::MAX; {some} in-range reads compared byte for byte"));
}

/// C15: bump outcomes and the span invariant, including use after a caught panic.
fn sub_bump(small: bool) {
    use defs::*;
    let texts: Vec<&str> = if small {
        vec!["", "a", "hé llo", "😀+é", "ab 12 ...", "a\u{10FFFF}b"]
    } else {
        vec!["", "a", "ab", "hello world", "hé llo", "😀+é", "ab 12 ... \"x\"", "€€€", "a😀b", "é", "12+34 λ", "  x  ", "....", "\"unterminated", "a\tb\nc", "ÿÿ 1", "z😀", "😀😀", "aé€😀z+1", "x y z 1 2 3", "a\u{10FFFF}b", "\u{100000}\u{10FFFF}1"]
    };
    let (mut cases, mut ok_bumps, mut panics, mut after_panic) = (0usize, 0usize, 0usize, 0usize);
    for text in &texts {
        let block = Exact::new(text.as_bytes(), text.len() % 3);
        let s: &str = std::str::from_utf8(block.bytes()).unwrap();
        let len = s.len();
        // every position reachable by next()
        let mut positions = 0;
        loop {
            let mut base: Lexer<StrA> = Lexer::new(s);
            let mut reached = true;
            for _ in 0..positions {
                if base.next().is_none() {
                    reached = false;
                    break;
                }
            }
            if !reached {
                break;
            }
            let end = base.span().end;
            let mut ns: Vec<usize> = (0..=len + 2).collect();
            for k in 0..if small { 2 } else { 6 } {
                ns.push(usize::MAX - k);
                ns.push(usize::MAX / 2 + k);
                ns.push(usize::MAX / 2 - k);
                ns.push((usize::MAX - end).wrapping_add(k));
                ns.push((usize::MAX - end).wrapping_sub(k));
                ns.push((usize::MAX - len).wrapping_add(k));
            }
            for &n in &ns {
                cases += 1;
                let mut lex = base.clone();
                let start0 = lex.span().start;
                let want_ok = match end.checked_add(n) {
                    Some(e) => e <= len && s.is_char_boundary(e),
                    None => false,
                };
                let res = catch_unwind(AssertUnwindSafe(|| lex.bump(n)));
                let sp = lex.span();
                match (&res, want_ok) {
                    (Ok(()), true) => {
                        ok_bumps += 1;
                        if sp.end != end + n || sp.start != start0 {
                            violation("C15", "bump-wrong-position", &format!("{text:?}: bump({n}) at end {end}: span {sp:?}"));
                        }
                    }
                    (Ok(()), false) => violation("C15", "bump-did-not-panic", &format!("{text:?} (len {len}): bump({n}) at end {end} returned normally, span is now {sp:?}")),
                    (Err(_), true) => violation("C15", "bump-panicked-on-valid-target", &format!("{text:?}: bump({n}) at end {end} panicked")),
                    (Err(_), false) => panics += 1,
                }
                // span invariant BEFORE touching slice()/remainder(): report, do not execute, a bad span
                let inv = |sp: &std::ops::Range<usize>| sp.start <= sp.end && sp.end <= len && s.is_char_boundary(sp.start) && s.is_char_boundary(sp.end);
                if !inv(&sp) {
                    violation("C15", "span-invariant-broken", &format!("{text:?} (len {len}): after bump({n}) at end {end} ({}) the lexer's span is {sp:?}: slice()/remainder() would be out of range", if res.is_ok() { "returned" } else { "panicked, caught" }));
                    continue;
                }
                if lex.slice() != &s[sp.clone()] || lex.remainder() != &s[sp.end..] {
                    violation("C15", "slice-after-bump", &format!("{text:?}: after bump({n}) slice/remainder differ from the source"));
                }
                // keep using the lexer (after a caught panic too)
                if res.is_err() {
                    after_panic += 1;
                }
                for _ in 0..3 {
                    let r = catch_unwind(AssertUnwindSafe(|| lex.next()));
                    let sp2 = lex.span();
                    if !inv(&sp2) {
                        violation("C15", "span-invariant-broken-later", &format!("{text:?}: next() after bump({n}) left span {sp2:?}"));
                        break;
                    }
                    if lex.slice() != &s[sp2.clone()] {
                        violation("C15", "slice-after-bump", &format!("{text:?}: slice after next() after bump({n})"));
                    }
                    if matches!(r, Ok(None)) {
                        break;
                    }
                }
            }
            // byte-mode lexer at the same position count
            let b = s.as_bytes();
            let mut bl: Lexer<BytesA> = Lexer::new(b);
            let mut okp = true;
            for _ in 0..positions {
                if bl.next().is_none() {
                    okp = false;
                    break;
                }
            }
            if okp {
                let bend = bl.span().end;
                for &n in &ns {
                    cases += 1;
                    let mut lex = bl.clone();
                    let want_ok = bend.checked_add(n).map(|e| e <= len).unwrap_or(false);
                    let res = catch_unwind(AssertUnwindSafe(|| lex.bump(n)));
                    let sp = lex.span();
                    if res.is_ok() != want_ok {
                        violation("C15", if want_ok { "bump-panicked-on-valid-target" } else { "bump-did-not-panic" }, &format!("bytes {text:?} (len {len}): bump({n}) at end {bend}: ok={} span {sp:?}", res.is_ok()));
                    }
                    if res.is_ok() {
                        ok_bumps += 1;
                    } else {
                        panics += 1;
                    }
                    if !(sp.start <= sp.end && sp.end <= len) {
                        violation("C15", "span-invariant-broken", &format!("bytes {text:?} (len {len}): after bump({n}) at end {bend} span is {sp:?}"));
                        continue;
                    }
                    if lex.slice() != &b[sp.clone()] || lex.remainder() != &b[sp.end..] {
                        violation("C15", "slice-after-bump", &format!("bytes {text:?}: after bump({n}) slice/remainder differ"));
                    }
                }
            }
            positions += 1;
            if positions > len + 2 {
                break;
            }
        }
    }
    let mut cx = bumpx::Counters::default();
    bumpx::run(small, &mut cx);
    cases += cx.cases;
    ok_bumps += cx.ok_bumps;
    panics += cx.panics;
    after_panic += cx.after_panic;
    summary("bump", &[("cases", cases), ("successful_bumps", ok_bumps), ("panicking_bumps", panics), ("lexers_used_after_caught_panic", after_panic), ("partial_lexer_cases", cx.partial_cases), ("wrapper_source_cases", cx.wrapper_cases), ("nontrivial", panics + ok_bumps)]);
    sample("bump", "source \"hé llo\", lexer after 1 next(): bump(n) for n in 0..=len+2 and around usize::MAX, usize::MAX/2, usize::MAX-end; outcome vs model, span invariant checked before slice()");
}

/// C06: stack depth of the state-machine lexer must not depend on input size.
fn sub_stack(small: bool) {
    use defs::*;
    let sm = cfg!(feature = "state_machine_codegen");
    let (n_skips, tok_len) = if small { (2_000usize, 4_000usize) } else { (1_000_000usize, 4_000_000usize) };
    if !sm {
        // documented: tail-call lexers may grow the stack; only observe on small sizes
        summary("stack", &[("cases", 0), ("nontrivial", 0), ("state_machine", 0)]);
        return;
    }
    let handle = std::thread::Builder::new().stack_size(256 * 1024).spawn(move || {
        let mut out: Vec<(String, usize, usize)> = vec![];
        // (1) consecutive skips, callback on every skip records a stack address
        for &n in &[1usize, 1000, n_skips] {
            let mut text = String::with_capacity(n * 2 + 1);
            for _ in 0..n {
                text.push_str("# ");
            }
            text.push('x');
            let mut lex = Lexer::<Probe>::new(&text);
            let mut toks = 0;
            while let Some(_r) = lex.next() {
                toks += 1;
            }
            let (lo, hi) = (lex.extras.min_addr, lex.extras.max_addr);
            out.push((format!("skips={n} tokens={toks} probes={}", lex.extras.probes), lo, hi));
        }
        // (2) one token of growing length through a two-state loop (no fast loop)
        for &n in &[5usize, 500, tok_len / 2] {
            let text = "ab".repeat(n);
            let mut lex = Lexer::<Probe>::new(&text);
            let first = lex.next();
            let ok = matches!(first, Some(Ok(Probe::AbLoop))) && lex.span() == (0..2 * n);
            let (lo, hi) = (lex.extras.min_addr, lex.extras.max_addr);
            out.push((format!("abloop n={n} ok={ok}"), lo, hi));
        }
        out
    });
    match handle.unwrap().join() {
        Ok(out) => {
            let mut addrs: Vec<usize> = vec![];
            for (what, lo, hi) in &out {
                if what.contains("ok=false") {
                    violation("C06", "long-token-wrong", what);
                }
                addrs.push(*lo);
                addrs.push(*hi);
            }
            let spread = addrs.iter().max().unwrap() - addrs.iter().min().unwrap();
            if spread != 0 {
                violation("C06", "stack-depth-depends-on-input", &format!("callback stack addresses differ by {spread} bytes across input sizes: {out:?}"));
            }
            summary("stack", &[("cases", out.len()), ("nontrivial", out.len()), ("state_machine", 1), ("address_spread", spread), ("max_skips", n_skips), ("max_token_len", tok_len)]);
            sample("stack", &format!("{out:?}"));
        }
        Err(_) => violation("C06", "stack-thread-panicked", "probe thread panicked"),
    }
}

/// C20: adversarial repetition patterns under the read trace.
fn sub_adv(small: bool) {
    use logos::verif::{arm, disarm, Event};
    let max_pow = if small { 9 } else { 16 };
    let (mut cases, mut events, mut attempts) = (0usize, 0usize, 0usize);
    let mut max_ratio = 0f64;
    let mut run = |name: &str, text: &str, f: &dyn Fn(&str) -> usize| {
        arm(true, usize::MAX);
        let items = f(text);
        let evs = disarm();
        cases += 1;
        let len = text.len();
        let mut start: Option<usize> = None;
        let (mut last, mut reads, mut maxo, mut first) = (0usize, 0usize, 0usize, true);
        let mut close = |start: Option<usize>, reads: usize, maxo: usize| {
            if let Some(s) = start {
                let examined = maxo.saturating_sub(s);
                attempts += 1;
                if examined >= 8 {
                    let r = reads as f64 / examined as f64;
                    if r > max_ratio {
                        max_ratio = r;
                    }
                }
                if reads > 4 * (examined + 2) + 16 {
                    violation("C20", "too-many-reads", &format!("{name} on {} bytes: attempt at {s}: {reads} reads for {examined} bytes examined", len));
                }
            }
        };
        for ev in &evs {
            match *ev {
                Event::Next { pos } | Event::Restart { pos } => {
                    close(start, reads, maxo);
                    start = Some(pos);
                    last = pos;
                    reads = 0;
                    maxo = pos;
                    first = true;
                }
                Event::Read { offset, size, .. } => {
                    events += 1;
                    if let Some(s) = start {
                        if first && offset != s {
                            violation("C20", "attempt-does-not-start-at-item-end", &format!("{name}: first read at {offset}, item ended at {s}"));
                        }
                        if offset < last {
                            violation("C20", "read-offset-decreased", &format!("{name} on {} bytes: read at {offset} after {last} (attempt start {s})", len));
                        }
                    }
                    first = false;
                    last = offset;
                    reads += 1;
                    maxo = maxo.max((offset + size).min(len + 1));
                }
            }
        }
        close(start, reads, maxo);
        let _ = items;
    };
    for p in 0..=max_pow {
        let n = 1usize << p;
        for extra in [0usize, 1, 7] {
            let n = n + extra;
            let a_n = "a".repeat(n);
            run("(a|aa)+b on a^n", &a_n, &|t| Lexer::<defs::Adv1>::new(t).count());
            run("(a|aa)+b on a^n b", &(a_n.clone() + "b"), &|t| Lexer::<defs::Adv1>::new(t).count());
            run("(a*)*b on a^n c", &(a_n.clone() + "c"), &|t| Lexer::<defs::Adv2>::new(t).count());
            run("(a|b)*abb on (ab)^n", &"ab".repeat(n / 2 + 1), &|t| Lexer::<defs::Adv3>::new(t).count());
            run("(x+x+)+y on x^n", &"x".repeat(n), &|t| Lexer::<defs::Adv4>::new(t).count());
            run("allow_greedy .* on text", &("k".to_string() + &a_n + "\n" + &a_n), &|t| Lexer::<defs::Adv5>::new(t).count());
            run("nested counted", &("ab".repeat(n / 2) + "c"), &|t| Lexer::<defs::Adv6>::new(t).count());
        }
    }
    summary("adv", &[("cases", cases), ("read_events", events), ("attempts", attempts), ("max_reads_per_examined_byte_x1000", (max_ratio * 1000.0) as usize), ("nontrivial", cases)]);
    sample("adv", &format!("(a|aa)+b, (a*)*b, (a|b)*abb, (x+x+)+y, greedy dot, nested counted repetitions on near-miss inputs up to 2^{max_pow}+7 bytes; max reads per examined byte {:.3}", max_ratio));
}

/// I5: long inputs with closed-form expectations.
fn sub_long(small: bool) {
    use defs::*;
    let size = if small { 1 << 12 } else { 1 << 21 };
    let sm = cfg!(feature = "state_machine_codegen");
    let mut cases = 0usize;
    let big_stack = std::thread::Builder::new().stack_size(if sm { 512 * 1024 } else { 1 << 30 });
    let h = big_stack.spawn(move || {
        let mut cases = 0usize;
        // one long token through the fast loop
        let t = "a".repeat(size);
        let mut lex = Lexer::<StrA>::new(&t);
        let first = lex.next();
        cases += 1;
        if !matches!(first, Some(Ok(StrA::Word(w))) if w.len() == size) || lex.next().is_some() {
            violation("C03", "long-single-token", &format!("a^{size}: first item {:?} span {:?}", first.map(|r| r.map(|_| ())), lex.span()));
        }
        // alternating tokens
        let t = "ab+".repeat(size / 3);
        let mut n = 0usize;
        let mut prev = 0usize;
        let mut lex = Lexer::<StrA>::new(&t);
        while let Some(r) = lex.next() {
            let sp = lex.span();
            if sp.start != prev || r.is_err() {
                violation("C03", "long-alternating", &format!("item #{n} at {sp:?} {:?}", r.map(|_| ())));
                break;
            }
            prev = sp.end;
            n += 1;
        }
        cases += 1;
        if n != 2 * (size / 3) || prev != t.len() {
            violation("C03", "long-alternating-count", &format!("{n} items, expected {}; ended at {prev} of {}", 2 * (size / 3), t.len()));
        }
        // runs of errors: '@' is matched by nothing -> one Err per byte
        let t = "@".repeat(size / 8);
        let n = Lexer::<StrA>::new(&t).filter(|r| r.is_err()).count();
        cases += 1;
        if n != size / 8 {
            violation("C02", "long-error-run", &format!("{n} errors for {} unmatched bytes", size / 8));
        }
        // runs of skips (state machine only: the tail-call lexer is documented to grow the stack)
        if cfg!(feature = "state_machine_codegen") {
            let t = " \n".repeat(size / 2) + "x";
            let v: Vec<_> = Lexer::<StrA>::new(&t).spanned().collect();
            cases += 1;
            if v.len() != 1 || v[0].1 != (size / 2 * 2..size / 2 * 2 + 1) {
                violation("C06", "long-skip-run", &format!("{} items, first {:?}", v.len(), v.first().map(|x| x.1.clone())));
            }
        }
        // multi-byte characters up to the very end of an exactly sized block
        let t = "é€😀".repeat(size / 64);
        let block = Exact::new(t.as_bytes(), 1);
        let s = std::str::from_utf8(block.bytes()).unwrap();
        let mut lex = Lexer::<StrA>::new(s);
        let first = lex.next();
        cases += 1;
        if !matches!(first, Some(Ok(StrA::Word(w))) if w.len() == s.len()) {
            violation("C03", "long-multibyte-token", &format!("span {:?} of {}", lex.span(), s.len()));
        }
        cases
    });
    match h.unwrap().join() {
        Ok(c) => cases += c,
        Err(_) => violation("C06", "long-input-thread-died", "thread panicked on a long input"),
    }
    summary("long", &[("cases", cases), ("bytes", size), ("nontrivial", cases)]);
    sample("long", &format!("a^{size}, (ab+)^{}, @^{}, ( \\n)^{} x, (é€😀)^{}", size / 3, size / 8, size / 2, size / 64));
}

fn main() {
    let args: Vec<String> = std::env::args().collect();
    let small = args.iter().any(|a| a == "--small");
    let seed: u64 = args.iter().position(|a| a == "--seed").and_then(|i| args.get(i + 1)).and_then(|s| s.parse().ok()).unwrap_or(1);
    let count: usize = args.iter().position(|a| a == "--count").and_then(|i| args.get(i + 1)).and_then(|s| s.parse().ok()).unwrap_or(2000);
    std::panic::set_hook(Box::new(|_| {}));
    let cfg = match (cfg!(feature = "state_machine_codegen"), cfg!(feature = "forbid_unsafe")) {
        (false, false) => "tc",
        (true, false) => "sm",
        (false, true) => "tc_safe",
        (true, true) => "sm_safe",
    };
    println!("S|config|name={} debug_assertions={}", cfg, cfg!(debug_assertions));
    // the tail-call lexer (documented) needs stack proportional to the token length in debug builds
    let subs: Vec<String> = args[1..].to_vec();
    let worker = std::thread::Builder::new().stack_size(if cfg!(miri) { 1 << 22 } else { 3 << 30 }).spawn(move || {
        for a in &subs {
            match a.as_str() {
                "read" => sub_read(small),
                "bump" => sub_bump(small),
                "hist" => hist::sub_hist(seed, count, small),
                "stack" => sub_stack(small),
                "adv" => sub_adv(small),
                "long" => sub_long(small),
                "twin" => twin::sub_twin(seed, count, small),
                _ => {}
            }
        }
    });
    if worker.unwrap().join().is_err() {
        println!("S|harness|worker thread panicked");
        std::process::exit(3);
    }
    println!("S|done|violations={}", violation_count());
}
