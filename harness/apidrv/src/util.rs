use std::cell::Cell;

thread_local! { static VCOUNT: Cell<usize> = const { Cell::new(0) }; }
static VTOTAL: std::sync::atomic::AtomicUsize = std::sync::atomic::AtomicUsize::new(0);

fn clean(s: &str) -> String {
    s.replace('\n', "\\n").replace('|', "¦")
}

pub fn violation(prop: &str, rule: &str, detail: &str) {
    let n = VTOTAL.fetch_add(1, std::sync::atomic::Ordering::SeqCst);
    VCOUNT.with(|c| c.set(c.get() + 1));
    if n < 200 {
        println!("V|{}|{}|{}", prop, rule, clean(detail));
    }
}

pub fn violation_count() -> usize {
    VTOTAL.load(std::sync::atomic::Ordering::SeqCst)
}

pub fn summary(sub: &str, kv: &[(&str, usize)]) {
    let parts: Vec<String> = kv.iter().map(|(k, v)| format!("{k}={v}")).collect();
    println!("S|{}|{}", sub, parts.join(" "));
}

pub fn sample(sub: &str, text: &str) {
    println!("E|{}|{}", sub, clean(text));
}

/// Input copied into an exactly sized heap block, behind `pre` junk bytes, so that the byte after
/// the source is outside the allocation (ASan red zone / Miri out-of-bounds).
pub struct Exact {
    data: Box<[u8]>,
    pre: usize,
}
impl Exact {
    pub fn new(input: &[u8], pre: usize) -> Exact {
        let mut v = Vec::with_capacity(pre + input.len());
        v.extend(std::iter::repeat(b'a').take(pre));
        v.extend_from_slice(input);
        Exact { data: v.into_boxed_slice(), pre }
    }
    pub fn bytes(&self) -> &[u8] {
        &self.data[self.pre..]
    }
}

#[derive(Clone)]
pub struct Rng(u64);
impl Rng {
    pub fn new(seed: u64) -> Rng {
        let mut z = seed.wrapping_add(0x9E3779B97F4A7C15);
        z = (z ^ (z >> 30)).wrapping_mul(0xBF58476D1CE4E5B9);
        z = (z ^ (z >> 27)).wrapping_mul(0x94D049BB133111EB);
        z ^= z >> 31;
        Rng(if z == 0 { 1 } else { z })
    }
    pub fn next(&mut self) -> u64 {
        let mut x = self.0;
        x ^= x >> 12;
        x ^= x << 25;
        x ^= x >> 27;
        self.0 = x;
        x.wrapping_mul(0x2545F4914F6CDD1D)
    }
    pub fn below(&mut self, n: usize) -> usize {
        ((self.next() >> 11) % n as u64) as usize
    }
}
