//! C12: the same definition over `str` and with `utf8 = false`, patterns carrying callbacks that *bump*
//! (block comments closed by a search, "rest of the input", one further character): on valid UTF-8 text both
//! lexers must yield the same items with the same spans; a panic in one of them is a difference.

use std::panic::{catch_unwind, AssertUnwindSafe};

use logos::{Lexer, Logos};

use crate::util::*;

fn find(h: &[u8], n: &[u8]) -> Option<usize> {
    h.windows(n.len()).position(|w| w == n)
}

fn char_len(lead: u8) -> usize {
    match lead {
        0x00..=0x7F => 1,
        0xC0..=0xDF => 2,
        0xE0..=0xEF => 3,
        _ => 4,
    }
}

fn close_s<'s>(lex: &mut Lexer<'s, TwinS>) -> bool {
    match lex.remainder().find("*/") {
        Some(i) => {
            lex.bump(i + 2);
            true
        }
        None => {
            let n = lex.remainder().len();
            lex.bump(n);
            false
        }
    }
}
fn close_b<'s>(lex: &mut Lexer<'s, TwinB>) -> bool {
    match find(lex.remainder(), b"*/") {
        Some(i) => {
            lex.bump(i + 2);
            true
        }
        None => {
            let n = lex.remainder().len();
            lex.bump(n);
            false
        }
    }
}

#[derive(Logos, Debug, PartialEq, Clone)]
#[logos(skip r"[ \n]+")]
pub enum TwinS {
    #[token("/*", close_s)]
    Comment,
    #[token("#", |lex| { let n = lex.remainder().len(); lex.bump(n); })]
    ToEnd,
    #[regex("[a-zéλ]+")]
    Word,
    #[token("€", |lex| lex.bump(0))]
    Euro,
    #[regex("[0-9]", |lex| { let n = lex.remainder().as_bytes().first().map(|b| char_len(*b)).unwrap_or(0); lex.bump(n); })]
    DigitAndOne,
    #[token("😀")]
    Smile,
}

#[derive(Logos, Debug, PartialEq, Clone)]
#[logos(skip r"[ \n]+", utf8 = false)]
pub enum TwinB {
    #[token("/*", close_b)]
    Comment,
    #[token("#", |lex| { let n = lex.remainder().len(); lex.bump(n); })]
    ToEnd,
    #[regex("[a-zéλ]+")]
    Word,
    #[token("€", |lex| lex.bump(0))]
    Euro,
    #[regex("[0-9]", |lex| { let n = lex.remainder().first().map(|b| char_len(*b)).unwrap_or(0); lex.bump(n); })]
    DigitAndOne,
    #[token("😀")]
    Smile,
}

type Stream = Result<Vec<(String, usize, usize)>, String>;

fn run_s(text: &str) -> Stream {
    catch_unwind(AssertUnwindSafe(|| {
        let mut lex = TwinS::lexer(text);
        let mut out = vec![];
        while let Some(r) = lex.next() {
            out.push((format!("{:?}", r), lex.span().start, lex.span().end));
            if out.len() > text.len() + 2 {
                break;
            }
        }
        out
    }))
    .map_err(|e| e.downcast_ref::<String>().cloned().or_else(|| e.downcast_ref::<&str>().map(|s| s.to_string())).unwrap_or_default())
}

fn run_b(text: &[u8]) -> Stream {
    catch_unwind(AssertUnwindSafe(|| {
        let mut lex = TwinB::lexer(text);
        let mut out = vec![];
        while let Some(r) = lex.next() {
            out.push((format!("{:?}", r), lex.span().start, lex.span().end));
            if out.len() > text.len() + 2 {
                break;
            }
        }
        out
    }))
    .map_err(|e| e.downcast_ref::<String>().cloned().or_else(|| e.downcast_ref::<&str>().map(|s| s.to_string())).unwrap_or_default())
}

pub fn sub_twin(seed: u64, count: usize, small: bool) {
    let pieces = ["/*", "*/", " x ", "é", "#", "ab", "7", "7é", "7😀", "€", "😀", " ", "\n", "/* λ */", "9", "*", "/", "#€", "7€"];
    let fixed = ["a /* x */ b", "/* é */", "x /* open", "#rest é", "1é2", "9", "€", "/**/", "ab #", "/* */", "#", "7", "a 7", "/*", "x/**/", "€€ #", "7😀7", "", "/* 😀*/"];
    let mut texts: Vec<String> = fixed.iter().map(|s| s.to_string()).collect();
    let n = if small { 40 } else { count.min(20000) };
    let mut rng = Rng::new(seed ^ 0x7717);
    for _ in 0..n {
        let k = 1 + rng.below(5);
        let mut t = String::new();
        for _ in 0..k {
            t.push_str(pieces[rng.below(pieces.len())]);
        }
        texts.push(t);
    }
    let (mut cases, mut bumps_to_end, mut items) = (0usize, 0usize, 0usize);
    for (i, t) in texts.iter().enumerate() {
        // exactly sized blocks: a bump to the very end of the source is the interesting case
        let block = Exact::new(t.as_bytes(), i % 3);
        let bytes = block.bytes();
        let s = std::str::from_utf8(bytes).unwrap();
        let a = run_s(s);
        let b = run_b(bytes);
        cases += 1;
        if let Ok(v) = &a {
            items += v.len();
            if v.last().map(|x| x.2 == bytes.len() && (x.0.contains("Comment") || x.0.contains("ToEnd") || x.0.contains("DigitAndOne") || x.0.contains("Err"))).unwrap_or(false) {
                bumps_to_end += 1;
            }
        }
        if a != b {
            violation("C12", "twin-with-bumping-callbacks-differs", &format!("text {:?}: str lexer gives {:?}, its utf8 = false twin gives {:?}", t, a, b));
        }
    }
    summary("twin", &[("cases", cases), ("items", items), ("streams_ending_in_a_bump_to_the_end", bumps_to_end), ("nontrivial", cases)]);
    sample("twin", "text \"a /* é */ #rest\": TwinS (str) and TwinB (utf8 = false) with callbacks that bump to a found terminator / to the end / over one character: same items and spans, no panic");
}
