use logos::{Lexer, Logos};

/// Heap-owning extras: a leak or double free in clone/morph shows under Miri / ASan.
#[derive(Debug, Clone, PartialEq, Default)]
pub struct Ex {
    pub n: u32,
    pub tag: Box<u32>,
}

#[derive(Logos, Debug, PartialEq, Clone)]
#[logos(skip r"[ \t\n]+", extras = Ex)]
pub enum StrA<'s> {
    #[regex("[a-zA-Zéλ€😀ÿ]+")]
    Word(&'s str),
    #[regex("[0-9]+", |lex| { lex.extras.n += 1; lex.slice().len() as u64 })]
    Num(u64),
    #[token("+")]
    Plus,
    #[token("...")]
    Dots,
    #[token(".")]
    Dot,
    #[regex("\"[^\"]*\"")]
    Str,
}

#[derive(Logos, Debug, PartialEq, Clone)]
#[logos(skip " ", extras = Ex)]
pub enum StrB {
    #[regex("[a-z]")]
    L,
    #[regex("[^a-z ]+", |lex| { lex.extras.n += 10; })]
    Other,
    #[token("hello")]
    Hello,
}

#[derive(Logos, Debug, PartialEq, Clone)]
#[logos(skip r"[ \t\n]+", extras = Ex, utf8 = false)]
pub enum BytesA<'s> {
    #[regex("[a-zA-Z]+")]
    Word(&'s [u8]),
    #[regex("[0-9]+", |lex| { lex.extras.n += 1; lex.slice().len() as u64 })]
    Num(u64),
    #[regex(b"[\x80-\xFF]+")]
    High,
    #[token("+")]
    Plus,
    #[token("...")]
    Dots,
    #[token(".")]
    Dot,
}

#[derive(Logos, Debug, PartialEq, Clone)]
#[logos(skip " ", extras = Ex, utf8 = false)]
pub enum BytesB {
    #[regex("[a-z]")]
    L,
    #[regex("(?-u:[^a-z ])+", |lex| { lex.extras.n += 10; })]
    Other,
    #[token("hello")]
    Hello,
}

#[derive(Debug, Clone)]
pub struct ProbeEx {
    pub min_addr: usize,
    pub max_addr: usize,
    pub probes: usize,
}
impl Default for ProbeEx {
    fn default() -> Self {
        ProbeEx { min_addr: usize::MAX, max_addr: 0, probes: 0 }
    }
}

#[inline(never)]
fn record(ex: &mut ProbeEx) {
    let marker = 0u8;
    let addr = std::hint::black_box(&marker) as *const u8 as usize;
    ex.min_addr = ex.min_addr.min(addr);
    ex.max_addr = ex.max_addr.max(addr);
    ex.probes += 1;
}

#[inline(never)]
fn probe_tok<'s>(lex: &mut Lexer<'s, Probe>) {
    record(&mut lex.extras);
}

#[inline(never)]
fn probe_skip<'s>(lex: &mut Lexer<'s, Probe>) {
    record(&mut lex.extras);
}

#[derive(Logos, Debug, PartialEq, Clone)]
#[logos(extras = ProbeEx, skip("#", probe_skip), skip " ")]
pub enum Probe {
    #[regex("(ab)+", probe_tok)]
    AbLoop,
    #[token("x", probe_tok)]
    X,
}

#[derive(Logos, Debug, PartialEq, Clone)]
pub enum Adv1 {
    #[regex("(a|aa)+b")]
    M,
}
#[derive(Logos, Debug, PartialEq, Clone)]
pub enum Adv2 {
    #[regex("(a*)*b")]
    M,
}
#[derive(Logos, Debug, PartialEq, Clone)]
pub enum Adv3 {
    #[regex("(a|b)*abb")]
    M,
}
#[derive(Logos, Debug, PartialEq, Clone)]
pub enum Adv4 {
    #[regex("(x+x+)+y")]
    M,
}
#[derive(Logos, Debug, PartialEq, Clone)]
pub enum Adv5 {
    #[regex("k.*", allow_greedy = true)]
    M,
    #[token("\n")]
    Nl,
    #[regex("a+")]
    As,
}
#[derive(Logos, Debug, PartialEq, Clone)]
pub enum Adv6 {
    #[regex("((ab){1,3}){2,}c")]
    M,
}
